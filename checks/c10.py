"""
C10 -- restarting from a saved state continues the original trajectory exactly.

The canonical crash-and-recover scenario: an integration "crashes" at grid index i; the only
durable state is what ParameterSet.set_initialization(result, t[i]) captured, kept on one of four
media (live object, deep copy, binary project file, calibration spreadsheet into a fresh parset);
recovery is a new run started at t[i].  Crash indices are ENUMERATED for every grid index of the
(short) reference run; media, chains of restarts and workload switches are seeded.
"""

import hashlib
import os
import shutil
import tempfile

import numpy as np

from atomsim import corpus
from atomsim.digest import result_arrays, compare_arrays

ID = "C10"
LEVEL = "fault_enumeration"
VERSION = 1
RULE = (
    "one problem = corpus project x seeded (dt, horizon, programs on/off and their start/stop years, y-factor perturbation); for each problem EVERY grid index "
    "0..N-2 (the first grid year included) is a crash point, each restarted through a seeded durable medium (live / deepcopy / binary project file / calibration spreadsheet) and optionally chained "
    "(restart of a restart, up to 3 links); evaluations = restarts compared with the uninterrupted run; distinct = distinct (project, dt, programs, medium, chain length, crash index) tuples; "
    "non-trivial = the restart happened strictly inside the horizon and at least 2 later indices were compared for every compartment, link, characteristic and parameter"
)
ASSUMPTIONS = [
    "bit-identity is demanded when the restarted time grid equals the tail of the original grid bit for bit and the medium is lossless; otherwise rtol=atol=1e-9 (grid re-anchoring by linspace / 16 significant digits of a spreadsheet)",
    "models with derivative parameters are excluded as the property states",
    "the scratch directory for binary files is a stub-free real tmpfs directory owned by the harness; no byte-level storage faults are injected (not in the property)",
]
COMPONENTS = {"real": ["atomica Model/Population/Initialization/ParameterSet/Project.save/load/calibration spreadsheet", "sciris saveobj/loadobj", "pandas/openpyxl/xlsxwriter"], "stub": ["none (crash = harness stops using the run at index i)"]}

_CORPUS = None
PROJECTS = ["udt", "usdt", "tb_simple", "timed_test", "timed_indirect", "timed_indirect2", "timed_eligibility", "udt_dyn", "hiv", "hypertension", "timed_transfer", "timed_transfer_2", "timed_transfer_3", "service", "dt", "tb_simple_dyn", "hiv_dyn", "hypertension_dyn", "diabetes", "cervicalcancer", "uncertainty"]
HEAVY = ["timed_tb", "tb"]
DTS = [0.25, 0.5, 1.0, 0.125, 0.25, 0.0625, 1.0 / 12, 0.1, 0.2, 0.3, 1.0 / 52]
MEDIA = ["live", "dcp", "binary", "spreadsheet"]


def budget(tier):
    if tier == "thorough":
        return {"runs": 3000, "wall": 1500, "chunk": 2, "minimise_s": 120}
    return {"runs": 320, "wall": 250, "chunk": 2, "minimise_s": 45}


def prepare(tier):
    global _CORPUS
    _CORPUS = corpus.load()


def _restart(at, P, parset, progset, instructions, res, year, medium, scratch, stats, prepare_only=False, stale=None):
    """Save state of ``res`` at ``year`` through ``medium`` and run again from there. Returns the new Result."""
    import sciris as sc

    ps = parset.copy()
    if stale is not None:
        # the parameter set already carries the state of ANOTHER run at the same year (same step, same initial-size
        # factors); saving the state of ``res`` must replace it
        ps.set_initialization(stale, year)
        stats["probe:state_saved_over_another_runs_state"] = stats.get("probe:state_saved_over_another_runs_state", 0) + 1
    ps.set_initialization(res, year)
    P2 = P
    if medium == "dcp":
        ps = sc.dcp(ps)
    elif medium == "binary":
        P.parsets["restart"] = ps
        fn = os.path.join(scratch, "p.prj")
        P.save(fn)
        P2 = at.Project.load(fn)
        ps = P2.parsets["restart"]
        del P.parsets["restart"]
        if progset is not None:
            progset = P2.progsets[progset.name]
    elif medium == "spreadsheet":
        if stats.get("_file_toggle", 0) % 2 == 0:
            ss = ps.calibration_spreadsheet()
        else:
            fn = os.path.join(scratch, "cal.xlsx")
            ps.save_calibration(fn)
            ss = fn
        stats["_file_toggle"] = stats.get("_file_toggle", 0) + 1
        # loaded into a parset that has the same visible data (incl. scenario overwrites) but neither the y-factors' origin nor a saved state
        fresh = parset.copy("fresh")
        fresh.initialization = None
        for par in fresh.all_pars():
            par.meta_y_factor = 1.0
            for k in par.y_factor:
                par.y_factor[k] = 1.0
        fresh.load_calibration(ss)
        # the saved state itself must survive the spreadsheet to the 16 significant digits a spreadsheet stores
        a, b = ps.initialization.values, fresh.initialization.values
        worst = 0.0
        for key, va in a.items():
            vb = b.get(key)
            if vb is None:
                worst = float("inf")
                break
            va_, vb_ = np.atleast_1d(np.asarray(va, dtype=float)), np.atleast_1d(np.asarray(vb, dtype=float))
            if va_.shape != vb_.shape:
                worst = float("inf")
                break
            with np.errstate(invalid="ignore", divide="ignore"):
                rel = np.abs(va_ - vb_) / np.maximum(np.abs(va_), 1e-300)
            rel = rel[np.isfinite(rel)]
            if rel.size:
                worst = max(worst, float(rel.max()))
        stats["_saved_state_worst_rel"] = max(stats.get("_saved_state_worst_rel", 0.0), worst)
        ps = fresh
    if prepare_only:
        return (P2, ps, progset, instructions, year)
    return _run_prepared((P2, ps, progset, instructions, year))


def _run_prepared(prepared):
    P2, ps, progset, instructions, year = prepared
    old_start = P2.settings.sim_start
    P2.settings.update_time_vector(start=year)
    try:
        out = P2.run_sim(ps, progset, instructions)
    finally:
        P2.settings.update_time_vector(start=old_start)
    return out


def _near_discontinuity(t, parset, progset, instructions, eps=1e-6):
    """True if a step discontinuity of the inputs lies within eps of a grid value."""
    times = []
    if instructions is not None:
        times += [instructions.start_year, instructions.stop_year]
        for d in (instructions.alloc, instructions.capacity, instructions.coverage):
            for ts in d.values():
                times += list(ts.t)
    if progset is not None and instructions is not None:
        for prog in progset.programs.values():
            for nm in ("spend_data", "unit_cost", "capacity_constraint", "saturation", "coverage", "baseline_spend"):
                times += list(getattr(prog, nm).t)
    for par in parset.all_pars():
        for sf in par.skip_function.values():
            if sf:
                times += list(sf)
    t = np.asarray(t)
    for x in times:
        if x is None or not np.isfinite(x):
            continue
        if np.min(np.abs(t - x)) < eps:
            return True
    return False


def fw_pars_with_values(P, parset):
    out = []
    for name in P.framework.pars.index:
        if name not in parset.pars or not parset.pars[name].ts:
            continue
        has_fcn = isinstance(P.framework.pars.at[name, "function"], str)
        has_data = all(ts.has_data for ts in parset.pars[name].ts.values())
        if P.framework.pars.at[name, "timed"] == "y":
            continue
        if has_data or has_fcn:
            out.append(name)
    return out


def run(ch, idx, tier):
    import atomica as at

    stats = {}

    def bump(k, n=1):
        stats[k] = stats.get(k, 0) + n

    violations = []
    names = [n for n in PROJECTS if n in _CORPUS] + corpus.generated_names()
    if ch.flip("heavy_model", 0.04):
        names = [n for n in HEAVY if n in _CORPUS] or names
    name = ch.pick("project", names)
    entry = _CORPUS[name]
    if entry.meta["derivative"]:
        bump("skipped_derivative")
        return {"violations": [], "stats": stats, "signature": None, "nontrivial": False, "sample": None}
    P = entry.project()
    parset = P.parsets[0]
    dt = DTS[ch.choose("dt", len(DTS))]
    nsteps = 6 + ch.choose("nsteps", 40)
    if name in HEAVY:
        dt = [0.25, 0.5][ch.choose("dt_heavy", 2)]
        nsteps = 8 + ch.choose("nsteps_heavy", 10)
    start = P.settings.sim_start
    P.settings.update_time_vector(end=start + nsteps * dt, dt=dt)
    use_progs = entry.meta["has_progset"] and ch.flip("use_programs", 0.6)
    progset = P.progsets[0] if use_progs else None
    instructions = None
    if use_progs:
        t = P.settings.tvec
        kind = ch.pick("prog_start", ["on_grid", "before_start", "off_grid", "late"])
        if kind == "on_grid":
            ps_year = float(t[ch.choose("prog_start_idx", len(t))])
        elif kind == "before_start":
            ps_year = float(start - 1)
        elif kind == "off_grid":
            ps_year = float(t[ch.choose("prog_start_idx", len(t) - 1)] + 0.37 * dt)
        else:
            ps_year = float(t[-1] + 1)
        stop = None
        if ch.flip("prog_stop", 0.3):
            stop = float(ps_year + dt * (1 + ch.choose("prog_stop_steps", 12)))
        alloc = None
        if ch.flip("alloc_overwrite", 0.4):
            alloc = {}
            for pn, prog in progset.programs.items():
                if ch.flip(f"alloc[{pn}]", 0.5):
                    base = float(prog.spend_data.interpolate(ps_year)[0]) if prog.spend_data.has_data else 0.0
                    alloc[pn] = at.TimeSeries([ps_year, ps_year + 2 * dt], [base * ch.uniform("alloc_scale", 0.0, 2.0), base * ch.uniform("alloc_scale2", 0.0, 2.0)])
        coverage = capacity = None
        pnames = list(progset.programs.keys())
        if ch.flip("coverage_overwrite", 0.25):
            coverage = {pnames[ch.choose("coverage.prog", len(pnames))]: at.TimeSeries([ps_year, ps_year + 3 * dt], [ch.uniform("coverage.v0", 0.05, 0.6), ch.uniform("coverage.v1", 0.05, 0.6)])}
        if ch.flip("capacity_overwrite", 0.25):
            capacity = {pnames[ch.choose("capacity.prog", len(pnames))]: at.TimeSeries([ps_year, ps_year + 2 * dt], [ch.uniform("capacity.v0", 10, 500), ch.uniform("capacity.v1", 10, 500)])}
        instructions = at.ProgramInstructions(start_year=ps_year, stop_year=stop, alloc=alloc, coverage=coverage, capacity=capacity)
    if ch.flip("perturb_yfactors", 0.3):
        pars = [p for p in parset.pars.values() if P.framework.pars.index.isin([p.name]).any()]
        for k in range(1 + ch.choose("n_yfactors", 3)):
            p = pars[ch.choose(f"ypar[{k}]", len(pars))]
            for pop in p.y_factor:
                p.y_factor[pop] = ch.uniform("yval", 0.5, 1.5)

    scen_desc = None
    if ch.flip("parameter_scenario", 0.3):
        # a parameter scenario (overwrite from a year inside the horizon; function parameters get a skip_function window
        # that straddles some of the crash points)
        cands = [p for p in fw_pars_with_values(P, parset)]
        if cands:
            pname = cands[ch.choose("scen.par", len(cands))]
            pops_ = list(parset.pars[pname].ts.keys())
            pop_ = pops_[ch.choose("scen.pop", len(pops_))]
            tgrid = P.settings.tvec
            t0 = float(tgrid[1 + ch.choose("scen.t0", max(1, len(tgrid) - 3))])
            t1 = t0 + dt * (1 + ch.choose("scen.len", 8))
            try:
                v0 = float(P.run_sim(parset, progset, instructions).get_variable(pname, pop_)[0].vals[0])
                if not np.isfinite(v0):
                    v0 = 0.1
                scen = at.ParameterScenario(name="scen", scenario_values={pname: {pop_: {"t": [t0, t1], "y": [v0 * ch.uniform("scen.y0", 0.5, 1.5), v0 * ch.uniform("scen.y1", 0.5, 1.5)]}}}, interpolation=["linear", "previous"][ch.choose("scen.interp", 2)])
                parset = scen.get_parset(parset, P)
                scen_desc = {"par": pname, "pop": pop_, "t": [t0, t1], "function": bool(P.framework.pars.at[pname, "function"] if not isinstance(P.framework.pars.at[pname, "function"], float) else False)}
                bump("probe:parameter_scenario")
                if scen_desc["function"]:
                    bump("probe:skip_function_window")
            except Exception:
                scen_desc = None

    config = {"project": name, "dt": dt, "nsteps": nsteps, "programs": use_progs, "scenario": scen_desc, "instructions": None if instructions is None else {"start": instructions.start_year, "stop": instructions.stop_year, "alloc": sorted(instructions.alloc.keys()), "coverage": sorted(instructions.coverage.keys()), "capacity": sorted(instructions.capacity.keys())}}
    scratch = tempfile.mkdtemp(prefix="atomsim_c10_", dir=os.environ.get("VERIF_SCRATCH"))
    try:
        try:
            ref = P.run_sim(parset, progset, instructions)
        except at.BadInitialization:
            bump("skipped_bad_initialization")
            return {"violations": [], "stats": stats, "signature": None, "nontrivial": False, "sample": {"config": config, "skipped": "BadInitialization"}}
        t = ref.t
        N = len(t)
        ref_arr = result_arrays(ref)
        if any(".comp[" in k2 and np.isnan(v2).any() for k2, v2 in ref_arr.items()):
            bump("probe:reference_run_has_nan_compartments")  # NaN == NaN in the comparison below; counted so that it cannot go unnoticed
        bump("model_years_x1000", int(1000 * (t[-1] - t[0])))
        # the state saved for the LAST grid year (from which no restart can be compared) must be the final state of the run
        try:
            from atomica.parameters import Initialization

            last = Initialization.from_result(ref, parset=parset, year=t[-1])
            for pop in ref.model.pops:
                for comp in pop.comps:
                    raw = getattr(comp, "_vals", None)
                    exp = np.asarray(raw[:, -1] if (raw is not None and hasattr(comp, "flush_link")) else [comp.vals[-1]], dtype=float)
                    # a compartment absent from the saved state starts empty when the state is applied
                    got = np.atleast_1d(np.asarray(last.values[(comp.name, pop.name)], dtype=float)) if (comp.name, pop.name) in last.values else np.zeros_like(exp)
                    if got.shape != exp.shape or not np.array_equal(got, exp, equal_nan=True):
                        violations.append({"cls": "saved_state_is_not_the_requested_year", "site": "Initialization.from_result(last grid year)", "detail": {"comp": comp.name, "pop": pop.name, "got": got[:4].tolist(), "expected": exp[:4].tolist(), "config": config}})
                        raise StopIteration
            bump("probe:last_year_state_checked")
        except StopIteration:
            pass
        crash_indices = list(range(0, N - 1))  # every grid year incl. the first (the whole trajectory must then be reproduced)
        exhaustive = True
        if name in HEAVY:
            crash_indices = sorted({ch.choose(f"crash_idx[{k}]", N - 1) for k in range(3)})
            exhaustive = False
        sigs = []
        first_detail = {}
        knife = None
        trace = hashlib.sha256()
        def judge(new, crash_at, year, medium, link, chain_exact):
            nonlocal knife
            # ---- oracle: tail of the uninterrupted run, index by index ----------------
            tail = t[crash_at:]
            # Precondition: the restarted simulation runs on the tail of the original time grid.  Building
            # the grid (start + k*dt for steps that are not exactly representable) is property C03's
            # business, not this one's: when ProjectSettings.tvec re-anchored at Y yields another number of
            # points or other values, no claim is made here; the case is counted and skipped.
            if len(new.t) != len(tail) or not np.allclose(new.t, tail, rtol=0, atol=1e-9):
                bump("skipped_restarted_grid_differs")
                return False, chain_exact
            grid_exact = bool(np.array_equal(new.t, tail))
            if not grid_exact and knife is None:
                knife = _near_discontinuity(t, parset, progset, instructions)
            if not grid_exact and knife:
                # a step discontinuity (program start/stop, 'previous'-interpolated series point) sits on a
                # grid value and the two grids differ in the last bit: which side it falls is undetermined
                bump("skipped_knife_edge_on_inexact_grid")
                return False, chain_exact
            chain_exact = chain_exact and grid_exact and medium != "spreadsheet"
            tol = 0.0 if chain_exact else 1e-9
            bump("probe:bit_identity_demanded" if tol == 0.0 else "probe:tolerance_1e-9_used")
            bad = compare_arrays(ref_arr, result_arrays(new), rtol=tol, atol=tol, index_from=(crash_at, 0))
            if bad:
                kinds = sorted({p.split(".")[1].split("[")[0] for p, _, _ in bad})
                key = ("trajectory_diverges" if tol else "trajectory_not_bit_identical", f"restart[{medium}]")
                if key not in first_detail:
                    first_detail[key] = {"crash_index": crash_at, "year": float(year), "medium": medium, "chain_link": link, "tol": tol, "first_bad": [[p, w, ix] for p, w, ix in bad[:4]], "n_bad_arrays": len(bad), "kinds": kinds, "config": config}
                return False, chain_exact
            return True, chain_exact

        stale_holder = {}

        def stale_result():
            # a run of the same model whose transition parameters (not the quantities that set initial sizes) are halved
            if "r" not in stale_holder:
                stale_holder["r"] = None
                try:
                    q = parset.copy()
                    for nm_ in P.framework.pars.index:
                        if nm_ in q.pars and P.framework.transitions.get(nm_):
                            q.pars[nm_].meta_y_factor = 0.5 * q.pars[nm_].meta_y_factor
                    stale_holder["r"] = P.run_sim(q, progset, instructions)
                except Exception:
                    pass
            return stale_holder["r"]

        for i in crash_indices:
            medium = MEDIA[ch.choose("medium", len(MEDIA))]
            chain = 1 + (ch.choose("chain", 3) if ch.flip("do_chain", 0.25) else 0)
            cur_res, cur_off = ref, 0  # cur_off: index of cur_res.t[0] in the original grid
            crash_at = i
            links = []
            ok = True
            chain_exact = True  # every link so far: bit-identical grid and lossless medium
            for link in range(chain):
                year = t[crash_at]
                # the year handed to set_initialization is the restarted run's own grid value
                year_local = cur_res.t[crash_at - cur_off]
                try:
                    stale_ = stale_result() if (link == 0 and (idx + crash_at) % 3 == 0) else None
                    new = _restart(at, P, parset, progset, instructions, cur_res, year_local, medium, scratch, stats, stale=stale_)
                except Exception as e:
                    import traceback

                    tb = traceback.extract_tb(e.__traceback__)
                    where = next((f"{fr.filename.split('/atomica/')[-1]}:{fr.name}" for fr in reversed(tb) if "/atomica/" in fr.filename), "?")
                    violations.append({"cls": "restart_raises", "site": where, "detail": {"exception": f"{type(e).__name__}: {str(e)[:300]}", "crash_index": crash_at, "year": float(year), "medium": medium, "link": link, "config": config}})
                    ok = False
                    break
                bump("evaluations")
                bump(f"fault:crash_restart_{medium}")
                from atomsim.digest import digest_result as _dr

                trace.update(_dr(new).encode())
                bump("model_years_x1000", int(1000 * (new.t[-1] - new.t[0])))
                links.append((crash_at, medium))
                ok_, chain_exact = judge(new, crash_at, year, medium, link, chain_exact)
                if not ok_:
                    ok = False
                    break
                if link + 1 < chain:
                    # next crash strictly later, inside the restarted horizon
                    remaining = N - 2 - crash_at
                    if remaining < 1:
                        break
                    nxt = crash_at + 1 + ch.choose("chain_next", remaining)
                    cur_res, cur_off = new, crash_at
                    crash_at = nxt
                    bump("probe:chained_restart")
            if ok and N - 1 - i >= 2:
                sigs.append((name, dt, use_progs, tuple(links)))
        # ---- several saved states alive at once: all are saved and taken through their media FIRST, then each is
        # run - a saved state must not depend on what was saved or loaded after it
        if N >= 5 and name not in HEAVY and ch.flip("coexisting_saved_states", 0.5):
            k_states = 2 + ch.choose("coexisting.n", 2)
            idxs = sorted({ch.choose(f"coexisting.idx[{j}]", N - 1) for j in range(k_states)})
            prepared = []
            for j, ci in enumerate(idxs):
                medium = MEDIA[ch.choose(f"coexisting.medium[{j}]", len(MEDIA))]
                if ch.flip(f"coexisting.spreadsheet[{j}]", 0.5):
                    medium = "spreadsheet"
                try:
                    prepared.append((ci, medium, _restart(at, P, parset, progset, instructions, ref, t[ci], medium, scratch, stats, prepare_only=True)))
                except Exception as e:
                    violations.append({"cls": "restart_raises", "site": "coexisting_saved_states:prepare", "detail": {"exception": f"{type(e).__name__}: {str(e)[:300]}", "crash_index": ci, "medium": medium, "config": config}})
            for ci, medium, prep in prepared:
                try:
                    new = _run_prepared(prep)
                except Exception as e:
                    violations.append({"cls": "restart_raises", "site": "coexisting_saved_states:run", "detail": {"exception": f"{type(e).__name__}: {str(e)[:300]}", "crash_index": ci, "medium": medium, "config": config}})
                    continue
                bump("evaluations")
                bump("probe:restart_with_other_saved_states_alive")
                judge(new, ci, t[ci], medium, 0, True)
        # ---- a run resumed in segments: run to Y1, save the final state (the documented default of set_initialization:
        # the last time point) INTO THE SAME parameter set, continue from Y1 to Y2, ... - the pieces are the original run
        if N >= 6 and name not in HEAVY and dt in (0.25, 0.5, 1.0, 0.125, 0.0625) and ch.flip("segmented_run", 0.4):
            cuts = sorted({1 + ch.choose(f"segment.cut[{j}]", N - 2) for j in range(1 + ch.choose("segment.n", 3))})
            ps_seg = parset.copy("segmented")
            seg_from = 0
            s0, e0 = P.settings.sim_start, P.settings.sim_end
            try:
                for cut in cuts + [N - 1]:
                    P.settings.update_time_vector(start=float(t[seg_from]), end=float(t[cut]))
                    try:
                        r_seg = P.run_sim(ps_seg, progset, instructions)
                    except Exception as e:
                        violations.append({"cls": "restart_raises", "site": "segmented_run", "detail": {"exception": f"{type(e).__name__}: {str(e)[:300]}", "segment": [float(t[seg_from]), float(t[cut])], "config": config}})
                        break
                    if len(r_seg.t) != cut - seg_from + 1 or not np.array_equal(r_seg.t, t[seg_from : cut + 1]):
                        bump("skipped_restarted_grid_differs")
                        break
                    bump("evaluations")
                    bump("probe:segment_of_resumed_run_compared")
                    seg_ref = {k2: v2[..., seg_from : cut + 1] for k2, v2 in ref_arr.items()}
                    bad = compare_arrays(seg_ref, result_arrays(r_seg), rtol=0.0, atol=0.0)
                    if bad:
                        key = ("trajectory_not_bit_identical", "resumed_in_segments")
                        if key not in first_detail:
                            first_detail[key] = {"segment": [float(t[seg_from]), float(t[cut])], "cuts": [float(t[c_]) for c_ in cuts], "first_bad": [[p_, w_, ix_] for p_, w_, ix_ in bad[:4]], "n_bad_arrays": len(bad), "config": config}
                        break
                    if ch.flip("segment.via_dcp", 0.3):
                        import sciris as _sc

                        ps_seg = _sc.dcp(ps_seg)
                    ps_seg.set_initialization(r_seg)  # no year: the state at the end of the segment
                    seg_from = cut
            finally:
                P.settings.update_time_vector(start=s0, end=e0)
        for (cls, site), detail in first_detail.items():
            violations.append({"cls": cls, "site": site, "detail": detail})
        if entry.meta["timed"]:
            bump("probe:timed_compartments")
        if entry.meta["junction"]:
            bump("probe:junctions")
        if entry.meta["transfers"]:
            bump("probe:transfers")
        if use_progs:
            bump("probe:programs_active")
        if exhaustive:
            bump("probe:all_crash_indices_enumerated")
        stats.pop("_file_toggle", None)
        w_ = stats.pop("_saved_state_worst_rel", 0.0)
        if w_ > 1e-15:
            violations.append({"cls": "saved_state_loses_digits_in_spreadsheet", "site": "Initialization.to_excel/from_excel", "detail": {"worst_relative_difference": w_, "config": config}})
        bump("problems")
        sig = hashlib.sha256(repr(sorted(set(sigs))).encode()).hexdigest()[:16] if sigs else None
        return {
            "violations": violations,
            "stats": stats,
            "signature": None,
            "trace": trace.hexdigest(),
            "signatures": sorted(set(sigs)),
            "nontrivial": bool(sigs),
            "sample": {"config": config, "grid_points": N, "crash_indices": len(crash_indices), "restarts_ok": len(sigs), "violations": [v["cls"] for v in violations]},
        }
    finally:
        shutil.rmtree(scratch, ignore_errors=True)
