"""
C16 -- round trips preserve content and behaviour; objects behave as their visible data.

A state machine over one project: a seeded history (<= 4) of library editing operations on the
databook / parameter set / program set, then storage round trips (spreadsheet blobs for framework,
databook, program book, calibration; binary files for project and result), including the lossy
calibration files the property names (missing / unknown / reordered rows).

Reference model: the object rebuilt from its own exported spreadsheet (same interface, trivially
fresh inside).  Oracles: content equality irrespective of table order and metadata, paired
simulations (1e-9 after the first spreadsheet trip, bit identity for further trips and binary files),
loader totality on the library's own output.
"""

import hashlib
import io
import math
import os
import shutil
import pickle
import tempfile

import numpy as np

ID = "C16"
LEVEL = "exploration"
VERSION = 1
RULE = (
    "one case = corpus project x seeded history of 0..4 operations (parset copy, add/remove/rename population everywhere, add/remove transfer (code names with and without the separator '_from_'), add/remove program, remove/re-add parameter or compartment of the program set, "
    "databook / program book value edits through TimeSeries insert/remove, zero-uncertainty sampling, reconciliation under the virtual clock, loading a calibration) followed by every round trip; "
    "distinct = distinct (project, history, round-trip media) tuples; non-trivial = history length >= 1 or a lossy calibration file was loaded, and at least one paired simulation was compared"
)
ASSUMPTIONS = [
    "numbers survive a spreadsheet to 16 significant digits: content compared with relative 1e-15 after the first trip, bit-identical after the second",
    "reconciliation runs under the virtual clock and simulated entropy so that it is a deterministic operation",
    "direct attribute edits are followed by the documented cache refresh (Covout.update_outcomes); only library operations are expected to keep caches coherent on their own",
    "no byte-level storage faults (torn writes, ENOSPC): the property speaks of files the library wrote completely; the storage faults used are the ones it names (missing / unknown / reordered calibration entries)",
]
COMPONENTS = {"real": ["atomica data / excel / programs / framework / parameters / project / reconciliation / migration", "openpyxl, xlsxwriter, pandas", "sciris Spreadsheet, saveobj/loadobj"], "stub": ["time module seen by sciris.sc_asd (reconciliation only)", "np.random.default_rng(None) -> simulated entropy (reconciliation only)"]}

_CORPUS = None
PROJECTS = ["udt", "usdt", "tb_simple", "hiv", "hypertension", "udt_dyn", "tb_simple_dyn", "hiv_dyn", "hypertension_dyn", "diabetes", "cervicalcancer", "uncertainty", "timed_transfer", "timed_transfer_2", "timed_test", "timed_indirect", "timed_indirect2", "timed_eligibility", "par_min_max", "service", "dt", "tb", "legacy_scen", "legacy_nores"]
HEAVY = {"tb", "legacy_scen", "legacy_nores"}


def budget(tier):
    if tier == "thorough":
        return {"runs": 5000, "wall": 1500, "chunk": 2, "minimise_s": 150}
    return {"runs": 600, "wall": 300, "chunk": 2, "minimise_s": 50}


def prepare(tier):
    global _CORPUS
    from atomsim import corpus

    _CORPUS = corpus.load()


# ---------------------------------------------------------------------------------------------
# canonical content (irrespective of table order and metadata)
# ---------------------------------------------------------------------------------------------


def _ts_content(ts):
    return {"t": [float(x) for x in ts.t], "v": [float(x) for x in ts.vals], "a": None if ts.assumption is None else float(ts.assumption), "s": None if ts.sigma is None else float(ts.sigma), "u": None if ts.units is None else str(ts.units).strip().lower()}


def data_content(data):
    c = {"pops": {k: (v["label"], v["type"]) for k, v in data.pops.items()}}
    for name, tdve in data.tdve.items():
        for pop, ts in tdve.ts.items():
            c[f"tdve[{name}][{pop}]"] = _ts_content(ts)
    for kind, lst in (("transfer", data.transfers), ("interaction", data.interpops)):
        for tdc in lst:
            c[f"{kind}[{tdc.code_name}].meta"] = (tdc.full_name, sorted(tdc.from_pops), sorted(tdc.to_pops))
            for key, ts in tdc.ts.items():
                c[f"{kind}[{tdc.code_name}][{key[0]}->{key[1]}]"] = _ts_content(ts)
    return c


def progset_content(ps):
    # ps.comps / ps.pars list what the framework makes *available* for targeting (re-derived from the framework on
    # load), they are not book content; targets and effects are compared through the programs and covouts below
    c = {"pops": {k: (v["label"], v["type"]) for k, v in ps.pops.items()}}
    for name, prog in ps.programs.items():
        c[f"prog[{name}]"] = {"label": prog.label, "target_pops": sorted(prog.target_pops), "target_comps": sorted(prog.target_comps)}
        for nm in ("spend_data", "unit_cost", "capacity_constraint", "saturation", "coverage"):
            c[f"prog[{name}].{nm}"] = _ts_content(getattr(prog, nm))
    for (par, pop), co in ps.covouts.items():
        c[f"covout[{par}][{pop}]"] = {"baseline": float(co.baseline), "cov": co.cov_interaction, "imp": co.imp_interaction, "sigma": None if co.sigma is None else float(co.sigma), "progs": {k: float(v) for k, v in co.progs.items()}}
    return c


def _num_eq(a, b, rel):
    if a is None or b is None:
        return a is None and b is None
    if isinstance(a, float) and isinstance(b, float):
        if math.isnan(a) and math.isnan(b):
            return True
        if rel == 0:
            return a == b
        return abs(a - b) <= rel * max(abs(a), abs(b))
    return a == b


def _content_eq(a, b, rel, path=""):
    """Returns first differing path or None."""
    if isinstance(a, dict) and isinstance(b, dict):
        for k in a:
            if k not in b:
                return f"{path}.{k}: missing after round trip"
        for k in b:
            if k not in a:
                return f"{path}.{k}: appeared after round trip"
        for k in a:
            d = _content_eq(a[k], b[k], rel, f"{path}.{k}")
            if d:
                return d
        return None
    if isinstance(a, (list, tuple)) and isinstance(b, (list, tuple)):
        if len(a) != len(b):
            return f"{path}: length {len(a)} vs {len(b)}"
        for i, (x, y) in enumerate(zip(a, b)):
            d = _content_eq(x, y, rel, f"{path}[{i}]")
            if d:
                return d
        return None
    if not _num_eq(a, b, rel):
        return f"{path}: {a!r} vs {b!r}"
    return None


def run(ch, idx, tier):
    import atomica as at
    import atomica.reconciliation as arec
    import sciris as sc
    import sciris.sc_asd as sc_asd
    from atomsim import seams
    from atomsim.digest import result_arrays, compare_arrays, digest_result, flatten, diff_tokens
    from atomsim.simclock import SimClock

    stats = {}

    def bump(k, n=1):
        stats[k] = stats.get(k, 0) + n

    violations = []

    def violate(cls, site, detail):
        if not any(v["cls"] == cls and v["site"] == site for v in violations):
            detail = dict(detail)
            detail["project"] = name
            detail["history"] = history
            violations.append({"cls": cls, "site": site, "detail": detail})

    from atomsim import corpus as _c

    names = [n for n in PROJECTS if n in _CORPUS and n not in HEAVY] + _c.generated_names()
    if ch.flip("heavy", 0.03) and "tb" in _CORPUS:
        names = [n for n in ("tb", "legacy_scen", "legacy_nores") if n in _CORPUS]
    name = ch.pick("project", names)
    entry = _CORPUS[name]
    P = entry.project()
    fw = P.framework
    data = P.data
    parset = P.parsets[0]
    use_progs = entry.meta["has_progset"] and ch.flip("with_programs", 0.65)
    progset = P.progsets[0] if use_progs else None
    history = []
    def _through_the_book(pg, label):
        # the object the loader makes of a book must have the content of the object the book was written from
        new_ = at.ProgramSet.from_spreadsheet(pg.to_spreadsheet(), framework=fw, data=data, name=pg.name)
        d_ = _content_eq(progset_content(pg), progset_content(new_), 1e-15)
        if d_:
            violate("content_changed_by_round_trip", f"progbook[{label}]", {"diff": d_})
        return new_

    if progset is not None and getattr(P, "_handbuilt_progset_blob", None) is not None:
        # generated models: the program set as it was built through the API, before any loader touched it
        try:
            _through_the_book(pickle.loads(P._handbuilt_progset_blob), "built through the API")
            bump("probe:handbuilt_program_set_through_the_book")
        except Exception as e:
            violate("own_output_does_not_load", f"progbook[built through the API]:{_where(e)}", {"exception": f"{type(e).__name__}: {str(e)[:300]}"})
    if progset is not None and ch.flip("outcomes_in_untargeted_pops", 0.3):
        # a valid program book may hold an outcome for a population the program does not target (the cell is only
        # highlighted): every program gets one where the book's structure allows it
        n_added = 0
        for prog in progset.programs.values():
            for co in progset.covouts.values():
                if co.pop not in prog.target_pops and prog.name not in co.progs:
                    co.progs[prog.name] = co.baseline * 1.2 + 0.01
                    co.update_outcomes()
                    n_added += 1
                    break
        if n_added:
            progset = _through_the_book(progset, "outcomes in untargeted populations")
            history.append(f"program book with {n_added} outcomes in untargeted populations")
    if progset is not None and ch.flip("other_currency", 0.4):
        # a program book kept in another currency (the currency is whatever the spending units say)
        cur = ch.pick("currency", ["EUR", "AUD", "R", "£"])
        for prog in progset.programs.values():
            for ts in (prog.spend_data, prog.unit_cost, prog.baseline_spend):
                if ts.units:
                    ts.units = ts.units.replace(progset.currency, cur, 1)
        progset.currency = cur
        progset = _through_the_book(progset, "other currency")
        history.append(f"program book in {cur}")
    trace = []
    compared = 0
    scratch = tempfile.mkdtemp(prefix="atomsim_c16_", dir=os.environ.get("VERIF_SCRATCH"))
    instr_start = float(P.settings.sim_start + 2)

    def instructions():
        return at.ProgramInstructions(start_year=instr_start) if progset is not None else None

    def simulate(ps, pg, label, proj=None):
        """Returns result arrays or None when the state cannot be simulated (counted, not a violation by itself)."""
        try:
            return (proj or P).run_sim(ps, pg, at.ProgramInstructions(start_year=instr_start) if pg is not None else None)
        except at.BadInitialization:
            bump("skipped_bad_initialization")
            return None
        except Exception as e:
            violate("object_cannot_simulate", _where(e), {"state": label, "exception": f"{type(e).__name__}: {str(e)[:300]}"})
            return None

    def compare(ra, rb, tol, cls, site, extra):
        nonlocal compared
        if ra is None or rb is None:
            return
        compared += 1
        bump("evaluations")
        trace.append([digest_result(ra), digest_result(rb)])
        bad = compare_arrays(result_arrays(ra), result_arrays(rb), rtol=tol, atol=tol)
        if bad:
            d = {"tol": tol, "first_bad": [[p, w, ix] for p, w, ix in bad[:3]], "n_bad": len(bad)}
            d.update(extra)
            violate(cls, site, d)

    # ---------------------------------------------------------------------------------------
    # history of editing operations
    # ---------------------------------------------------------------------------------------
    nops = ch.choose("history_length", 5)
    legacy = name.startswith("legacy")
    if legacy:
        nops = 0  # files written by old versions: only the binary persistence half of the property applies (their data predates today's books)
    OPS = ["none", "parset_copy", "add_pop", "remove_pop", "rename_pop", "add_transfer", "remove_transfer", "data_edit", "sample_zero", "load_calibration", "edit_yfactor", "connection_edit"]
    if progset is not None:
        OPS += ["add_program", "remove_program", "remove_par", "remove_comp", "progset_edit", "progset_copy", "reconcile", "progset_sample_zero", "remove_program", "reconcile", "add_program", "add_program"]
    new_names = 0
    aborted = False
    originals = []
    try:
        for k in range(nops):
            op = OPS[ch.choose(f"op[{k}]", len(OPS))]
            ch.mark(f"op{k}")
            try:
                if op == "none":
                    continue
                elif op == "parset_copy":
                    originals.append(("parset", parset, flatten(parset)))  # the copy must be independent: whatever happens to it later must not reach this object
                    if ch.flip("copy_via_ndict", 0.5):
                        P.parsets[parset.name] = parset
                        parset = P.parsets.copy(parset.name, f"copy{k}")
                    else:
                        parset = parset.copy(f"copy{k}")
                elif op == "add_pop":
                    src = list(data.pops.keys())[ch.choose("add_pop.src", len(data.pops))]
                    new_names += 1
                    # valid names that look like something else to a spreadsheet reader are part of "arbitrary names"
                    code = ["np %d" % new_names, "New-pop_%d" % new_names, "zz%d" % new_names, "NA", "15", "null", "1e5", "N/A", "True"][ch.choose("add_pop.name", 9)]
                    if code in data.pops:
                        code = code + str(new_names)
                    ptype = data.pops[src]["type"]
                    data.add_pop(code, f"Population {code}", ptype)
                    for tdve in data.tdve.values():
                        if src in tdve.ts and code in tdve.ts:
                            tdve.ts[code] = tdve.ts[src].copy()
                    if progset is not None:
                        progset.add_pop(code, f"Population {code}", ptype)
                    parset = at.ParameterSet(fw, data, parset.name)
                    op = f"add_pop({code!r} like {src!r})"
                elif op == "remove_pop":
                    if len(data.pops) < 2:
                        continue
                    victim = list(data.pops.keys())[ch.choose("remove_pop.which", len(data.pops))]
                    if progset is not None and any(prog.target_pops == [victim] for prog in progset.programs.values()):
                        continue  # would leave a program without any target (legitimately refused by the model)
                    data.remove_pop(victim)
                    if progset is not None:
                        # documented: "Code name or full name of the population to remove"
                        label_ = progset.pops[victim]["label"] if (victim in progset.pops and ch.flip("remove_pop.by_full_name", 0.5)) else victim
                        progset.remove_pop(label_)
                    parset = at.ParameterSet(fw, data, parset.name)
                    op = f"remove_pop({victim!r})"
                elif op == "rename_pop":
                    if progset is not None:
                        continue  # ProgramSet has no rename operation
                    cands_ = sorted({k0 for tdc in data.transfers + data.interpops for (k0, _k1) in tdc.ts.keys()}) or list(data.pops.keys())  # prefer populations that key a transfer / interaction row
                    victim = cands_[ch.choose("rename_pop.which", len(cands_))]
                    new_names += 1
                    code = [f"ren {new_names}", "NA", "nan", "007"][ch.choose("rename_pop.name", 4)]
                    if code in data.pops:
                        code = code + str(new_names)
                    data.rename_pop(victim, code, f"Renamed {new_names}")
                    parset = at.ParameterSet(fw, data, parset.name)
                    op = f"rename_pop({victim!r}->{code!r})"
                elif op == "add_transfer":
                    pops = list(data.pops.keys())
                    if len(pops) < 2:
                        continue
                    new_names += 1
                    # any code name is allowed, including one that contains the separator the library uses for the
                    # per-source parameter names ("<code>_from_<source>")
                    code = f"tr{new_names}" if new_names % 2 else f"mv_from_tr{new_names}"
                    ptype = data.pops[pops[0]]["type"]
                    same = [p for p in pops if data.pops[p]["type"] == ptype]
                    if len(same) < 2:
                        continue
                    tdc = data.add_transfer(code, f"Transfer {new_names}", ptype)
                    a, b = same[0], same[1]
                    units = ["probability", "number"][ch.choose("add_transfer.units", 2)]
                    ts = at.TimeSeries(units=units)
                    if ch.flip("add_transfer.timedata", 0.5):
                        ts.insert(float(data.tvec[0]), 0.01 if units == "probability" else 3.0)
                        ts.insert(float(data.tvec[-1]), 0.02 if units == "probability" else 5.0)
                    else:
                        ts.assumption = 0.015 if units == "probability" else 4.0
                    tdc.ts[(a, b)] = ts
                    parset = at.ParameterSet(fw, data, parset.name)
                    op = f"add_transfer({code!r}: {a}->{b}, {units})"
                elif op == "remove_transfer":
                    if not data.transfers:
                        continue
                    victim = data.transfers[ch.choose("remove_transfer.which", len(data.transfers))].code_name
                    data.remove_transfer(victim)
                    parset = at.ParameterSet(fw, data, parset.name)
                    op = f"remove_transfer({victim!r})"
                elif op == "data_edit":
                    cands = [(n_, p_) for n_, tdve in data.tdve.items() for p_, ts in tdve.ts.items() if ts.has_data and n_ in fw.pars.index]
                    if not cands:
                        continue
                    n_, p_ = cands[ch.choose("data_edit.which", len(cands))]
                    ts = data.tdve[n_].ts[p_]
                    kind = ch.choose("data_edit.kind", 4)
                    base = float(ts.interpolate(float(data.tvec[0]))[0])
                    if kind == 0:
                        tv = list(data.tdve[n_].tvec)  # a TDVE only holds values at the years of its own time axis
                        if not tv:
                            continue
                        ts.insert(float(tv[ch.choose("data_edit.year", len(tv))]), base * ch.uniform("data_edit.scale", 0.7, 1.3))
                    elif kind == 1 and len(ts.t) > 1:
                        ts.remove(ts.t[ch.choose("data_edit.rm", len(ts.t))])
                    elif kind == 2:
                        if n_ in fw.pars.index and fw.pars.at[n_, "timed"] == "y":
                            continue  # duration parameters of timed compartments persist no uncertainty column by design
                        ts.sigma = [None, 0.0, 0.25][ch.choose("data_edit.sigma", 3)]
                    else:
                        ts.assumption = base * ch.uniform("data_edit.scale2", 0.7, 1.3) if not ts.has_time_data else ts.assumption
                    parset = at.ParameterSet(fw, data, parset.name)
                    op = f"data_edit({n_!r},{p_!r},kind={kind})"
                elif op == "connection_edit":
                    tdcs = [t for t in data.transfers + data.interpops if t.ts]
                    if not tdcs:
                        continue
                    tdc = tdcs[ch.choose("connection_edit.which", len(tdcs))]
                    keys = list(tdc.ts.keys())
                    key = keys[ch.choose("connection_edit.pair", len(keys))]
                    ts = tdc.ts[key]
                    tv = [float(x) for x in tdc.tvec]
                    base = float(ts.interpolate(tv[0])[0]) if ts.has_data else 0.1
                    if ch.flip("connection_edit.timevalue", 0.7):
                        ts.insert(tv[ch.choose("connection_edit.year", len(tv))], base * ch.uniform("connection_edit.scale", 0.5, 1.5))
                    else:
                        ts.t, ts.vals = [], []
                        ts.assumption = base * ch.uniform("connection_edit.scale", 0.5, 1.5)
                    parset = at.ParameterSet(fw, data, parset.name)
                    op = f"connection_edit({tdc.code_name!r},{key})"
                elif op == "sample_zero":
                    for par in parset.all_pars():
                        for ts in par.ts.values():
                            ts.sigma = [None, 0.0][ch.choose("sample_zero.sigma", 2)]
                            ts._sampled = False
                    before = simulate(parset, progset, "before zero sampling")
                    parset = parset.sample()
                    after = simulate(parset, progset, "after zero sampling")
                    compare(before, after, 0.0, "zero_uncertainty_sampling_changes_behaviour", "ParameterSet.sample", {})
                elif op == "edit_yfactor":
                    pars = [p for p in parset.pars.values() if p.ts and p.name in fw.pars.index]
                    if ch.flip("edit_yfactor.connection", 0.25):
                        # scale factors of transfer / interaction rows (keyed by source population) are calibration too
                        conn = [p for d_ in list(parset.transfers.values()) + list(parset.interactions.values()) for p in d_.values() if p.y_factor]
                        pars = conn or pars
                    p = pars[ch.choose("edit_yfactor.par", len(pars))]
                    pop = list(p.y_factor.keys())[ch.choose("edit_yfactor.pop", len(p.y_factor))]

                    def _factor(label, lo, hi):
                        # switching a quantity off (0) and exact round numbers are ordinary calibration values
                        k_ = ch.choose(label + ".kind", 4)
                        return [None, 0.0, 1.0, 2.0][k_] if k_ else ch.uniform(label, lo, hi)

                    p.y_factor[pop] = _factor("edit_yfactor.val", 0.8, 1.25)
                    if ch.flip("edit_yfactor.meta", 0.4):
                        p.meta_y_factor = _factor("edit_yfactor.metaval", 0.9, 1.1)
                    op = f"edit_yfactor({p.name!r},{pop!r})"
                elif op == "load_calibration":
                    other = parset.copy("other")
                    pars = [p for p in other.pars.values() if p.ts and p.name in fw.pars.index]
                    for j in range(1 + ch.choose("load_calibration.n", 3)):
                        p = pars[ch.choose(f"load_calibration.par[{j}]", len(pars))]
                        for pop in p.y_factor:
                            p.y_factor[pop] = ch.uniform("load_calibration.val", 0.8, 1.25)
                        if ch.flip(f"load_calibration.meta[{j}]", 0.4):
                            p.meta_y_factor = [0.0, 0.5, 1.0, 1.5][ch.choose(f"load_calibration.metaval[{j}]", 4)]
                    parset.load_calibration(other.calibration_spreadsheet())
                    d = _content_eq(_yf(parset), _yf(other), 1e-15)
                    if d:
                        violate("calibration_not_applied", "load_calibration", {"diff": d})
                elif op == "progset_copy":
                    originals.append(("progset", progset, flatten(progset)))
                    progset = progset.copy(f"pcopy{k}") if ch.flip("progset_copy.method", 0.5) else sc.dcp(progset)
                elif op == "add_program":
                    new_names += 1
                    code = f"newprog{new_names}"
                    progset.add_program(code, f"New program {new_names}")
                    prog = progset.programs[code]
                    tp = list(progset.pops.keys())
                    prog.target_pops = [tp[ch.choose("add_program.pop", len(tp))]]
                    tc = list(progset.comps.keys())
                    prog.target_comps = [tc[ch.choose("add_program.comp", len(tc))]]
                    other = list(progset.programs.values())[0]
                    spend, uc = 1000.0 * (1 + ch.choose("add_program.spend", 5)), 10.0 * (1 + ch.choose("add_program.uc", 5))
                    if ch.flip("add_program.data_in_place", 0.7):
                        # values entered into the series the library created for the new program
                        prog.spend_data.insert(float(progset.tvec[0]), spend)
                        prog.unit_cost.insert(float(progset.tvec[0]), uc)
                    else:
                        prog.spend_data = at.TimeSeries(float(progset.tvec[0]), spend, units=other.spend_data.units)
                        prog.unit_cost = at.TimeSeries(float(progset.tvec[0]), uc, units=other.unit_cost.units)
                    covs = [co for co in progset.covouts.values() if co.pop in prog.target_pops]
                    if ch.flip("add_program.effect_in_untargeted_pop", 0.3):
                        # a program book may hold an outcome for a population the program does not target (the cell is only highlighted)
                        covs = list(progset.covouts.values())
                    if covs and ch.flip("add_program.effect", 0.7):
                        co = covs[ch.choose("add_program.covout", len(covs))]
                        co.progs[code] = 0.0 if ch.flip("add_program.zero_outcome", 0.3) else co.baseline * ch.uniform("add_program.outcome", 0.5, 1.5) + 0.01
                        co.update_outcomes()  # documented protocol after editing outcomes directly
                    op = f"add_program({code!r})"
                elif op == "remove_program":
                    if len(progset.programs) < 2:
                        continue
                    victim = list(progset.programs.keys())[ch.choose("remove_program.which", len(progset.programs))]
                    progset.remove_program(victim)
                    op = f"remove_program({victim!r})"
                elif op == "remove_par":
                    used = sorted({co.par for co in progset.covouts.values()})
                    if len(used) < 1:
                        continue
                    victim = used[ch.choose("remove_par.which", len(used))]
                    label = progset.pars[victim]["label"]
                    ptype = progset.pars[victim]["type"]
                    progset.remove_par(victim)
                    if ch.flip("remove_par.readd", 0.5):
                        progset.add_par(victim, label, ptype)
                    op = f"remove_par({victim!r})"
                elif op == "remove_comp":
                    # only compartments whose removal leaves every program with a target (a program without target
                    # compartments is legitimately refused by the model unless coverage is given explicitly)
                    used = sorted({c for prog in progset.programs.values() for c in prog.target_comps if all(len(p2.target_comps) >= 2 for p2 in progset.programs.values() if c in p2.target_comps)})
                    if not used:
                        continue
                    victim = used[ch.choose("remove_comp.which", len(used))]
                    label, ptype = progset.comps[victim]["label"], progset.comps[victim]["type"]
                    progset.remove_comp(victim)
                    if ch.flip("remove_comp.readd", 0.5):
                        progset.add_comp(victim, label, ptype)
                    op = f"remove_comp({victim!r})"
                elif op == "progset_edit":
                    progs = list(progset.programs.values())
                    prog = progs[ch.choose("progset_edit.prog", len(progs))]
                    ts = [prog.unit_cost, prog.spend_data][ch.choose("progset_edit.which", 2)]
                    if not isinstance(ts.t, list):
                        bump("probe:timeseries_holds_ndarray")  # e.g. after reconcile(); TimeSeries.insert cannot be used on it
                        continue
                    if ts.has_data:
                        base = float(ts.interpolate(float(progset.tvec[0]))[0])
                        tv = [float(x) for x in progset.tvec]
                        ts.insert(tv[ch.choose("progset_edit.year", len(tv))], base * ch.uniform("progset_edit.scale", 0.5, 2.0))
                    op = f"progset_edit({prog.name!r})"
                elif op == "progset_sample_zero":
                    for prog in progset.programs.values():
                        for nm in ("spend_data", "unit_cost", "capacity_constraint", "saturation", "coverage"):
                            getattr(prog, nm).sigma = [None, 0.0][ch.choose("psz.sigma", 2)]
                            getattr(prog, nm)._sampled = False
                    for co in progset.covouts.values():
                        co.sigma = [None, 0.0][ch.choose("psz.cosigma", 2)]
                    before = simulate(parset, progset, "before zero sampling")
                    progset = progset.sample()
                    after = simulate(parset, progset, "after zero sampling")
                    compare(before, after, 0.0, "zero_uncertainty_sampling_changes_behaviour", "ProgramSet.sample", {})
                elif op == "reconcile":
                    clock = SimClock([0.01], {})
                    with seams.patched():
                        seams.patch(sc_asd, "time", clock)
                        odr = np.random.default_rng
                        seams.patch(np.random, "default_rng", lambda seed=None: odr(4242 if seed is None else seed))
                        orig_obj = arec._objective

                        def obj(x, *a, **kw):
                            clock.on_evaluation()
                            return orig_obj(x, *a, **kw)

                        seams.patch(arec, "_objective", obj)
                        bounds = {"unit_cost_bounds": [0.0, 0.2][ch.choose("reconcile.uc", 2)], "baseline_bounds": [0.2, 0.0][ch.choose("reconcile.bl", 2)], "outcome_bounds": [0.2, 0.0][ch.choose("reconcile.out", 2)]}
                        if not any(bounds.values()) or (bounds["outcome_bounds"] and not bounds["baseline_bounds"]):
                            bounds["baseline_bounds"] = 0.2
                        # the reconciliation year need not be one of the book's year columns (mid-year, or between sparse columns)
                        rec_year = instr_start + [0.0, 0.0, 0.5, 1.0][ch.choose("reconcile.year_offset", 4)]
                        progset = at.reconcile(P, parset, progset, rec_year, max_time=0.01 * (5 + ch.choose("reconcile.iters", 30)), **bounds)[0]
                    bump("sim_seconds_x1000", int(1000 * clock.elapsed))
                    op = f"reconcile({bounds})"
                history.append(op)
                bump(f"op:{op.split('(')[0]}")
            except (AssertionError, at.InvalidProgramBook, at.InvalidDatabook, KeyError, ValueError, at.BadInitialization, AttributeError, TypeError, IndexError) as e:
                # An operation may deliberately refuse its arguments (an explicit raise / assert in the library): counted.
                # An exception that merely escapes from the middle of a library operation applied to a state that library
                # operations built (e.g. list.remove() failing inside remove_pop) is a crash of the operation: reported.
                import linecache
                import traceback as _tb

                frames = _tb.extract_tb(e.__traceback__)
                lib = [fr for fr in frames if "/atomica/" in fr.filename]
                deliberate = True
                if lib:
                    last = lib[-1]
                    src = (last.line or linecache.getline(last.filename, last.lineno)).strip()
                    innermost_is_lib = frames[-1] is last or frames[-1].filename == last.filename
                    deliberate = innermost_is_lib and (src.startswith("raise") or src.startswith("assert"))
                    if not deliberate and not isinstance(e, (AssertionError, at.InvalidProgramBook, at.InvalidDatabook, at.BadInitialization)):
                        violate("library_operation_crashes", f"{last.filename.split('/atomica/')[-1]}:{last.name}", {"operation": op if isinstance(op, str) else str(op), "exception": f"{type(e).__name__}: {str(e)[:200]}", "line": src[:120]})
                history.append(f"{op} -> refused {type(e).__name__}")
                bump("op_refused")
                aborted = True  # the refused operation may have been applied half-way: no claim about the resulting state
                break
        if aborted:
            bump("runs_abandoned_after_refused_operation")
            return {"violations": violations, "stats": stats, "signature": None, "nontrivial": False, "sample": {"project": name, "history": history, "abandoned": True}, "oplog": history, "trace": trace}
        for kind_, obj, snap in originals:
            now = flatten(obj)
            if now != snap:
                # NDict.copy() legitimately renames the stored original's key owner; ignore the name / modified stamp only
                d_ = [x for x in diff_tokens(snap, now, 6) if not x[0].endswith(".name")]
                if d_:
                    violate("copy_shares_state_with_original", f"{kind_}.copy", {"diff": d_[:3]})
        # a copy is independent of its original: entering values in EVERY series of a fresh copy (the in-place
        # TimeSeries.insert users edit books with) leaves the original's content as it was
        def _all_series(obj, kind_):
            if kind_ == "parset":
                return [ts_ for par_ in obj.all_pars() for ts_ in par_.ts.values()]
            if kind_ == "progset":
                return [ts_ for pr_ in obj.programs.values() for ts_ in (pr_.spend_data, pr_.unit_cost, pr_.capacity_constraint, pr_.saturation, pr_.coverage, pr_.baseline_spend)]
            out_ = [ts_ for td_ in obj.tdve.values() for ts_ in td_.ts.values()]
            for tdc_ in list(obj.transfers) + list(obj.interpops):
                out_ += list(tdc_.ts.values())
            return out_

        for kind_, obj in (("parset", parset), ("progset", progset), ("data", data)):
            if obj is None:
                continue
            snap_ = flatten(obj)
            how = ch.choose(f"final_copy.{kind_}", 2)
            try:
                cp_ = sc.dcp(obj) if (how == 0 or not hasattr(obj, "copy")) else obj.copy()
                for ts_ in _all_series(cp_, kind_):
                    if isinstance(ts_.t, list):
                        ts_.insert(1990.5, 0.123)
            except Exception:
                bump("final_copy_edit_refused")
                continue
            bump("probe:copy_then_edit_every_series")
            if flatten(obj) != snap_:
                d_ = [x for x in diff_tokens(snap_, flatten(obj), 6) if not x[0].endswith(".name")]
                if d_:
                    violate("copy_shares_state_with_original", f"{kind_}.{'dcp' if how == 0 else 'copy'}+edit", {"diff": d_[:3]})
        # -----------------------------------------------------------------------------------
        # round trips
        # -----------------------------------------------------------------------------------
        base = simulate(parset, progset, "in-memory")

        # -- databook ---------------------------------------------------------------------
        if legacy:
            raise _LegacyOnlyBinary()
        try:
            ss1 = data.to_spreadsheet()
            data1 = at.ProjectData.from_spreadsheet(ss1, fw)
            ss2 = data1.to_spreadsheet()
            data2 = at.ProjectData.from_spreadsheet(ss2, fw)
        except Exception as e:
            import traceback

            where = _where(e)
            violate("own_output_does_not_load", f"databook:{where}", {"exception": f"{type(e).__name__}: {str(e)[:300]}"})
            data1 = data2 = None
        if data1 is not None:
            bump("fault:none_storage_roundtrip_databook")
            d = _content_eq(data_content(data), data_content(data1), 1e-15)
            if d:
                violate("content_changed_by_round_trip", "databook", {"diff": d})
            d = _content_eq(data_content(data1), data_content(data2), 0)
            if d:
                violate("second_round_trip_not_identical", "databook", {"diff": d})
            try:
                ps1 = at.ParameterSet(fw, data1, "rt1")
                ps2 = at.ParameterSet(fw, data2, "rt2")
                _copy_yf(parset, ps1)
                _copy_yf(parset, ps2)
                ref_ps = at.ParameterSet(fw, data, "ref")
                _copy_yf(parset, ref_ps)
                r0 = simulate(ref_ps, None, "data in memory")
                r1 = simulate(ps1, None, "data trip 1")
                r2 = simulate(ps2, None, "data trip 2")
                compare(r0, r1, 1e-9, "behaviour_changed_by_round_trip", "databook", {})
                compare(r1, r2, 0.0, "second_round_trip_not_bit_identical", "databook", {})
            except at.BadInitialization:
                bump("skipped_bad_initialization")

        # -- program book -------------------------------------------------------------------
        if progset is not None:
            try:
                pss1 = progset.to_spreadsheet()
                pg1 = at.ProgramSet.from_spreadsheet(pss1, framework=fw, data=data, name="rt1")
                pss2 = pg1.to_spreadsheet()
                pg2 = at.ProgramSet.from_spreadsheet(pss2, framework=fw, data=data, name="rt2")
            except Exception as e:
                violate("own_output_does_not_load", f"progbook:{_where(e)}", {"exception": f"{type(e).__name__}: {str(e)[:300]}"})
                pg1 = pg2 = None
            if pg1 is not None:
                bump("fault:none_storage_roundtrip_progbook")
                d = _content_eq(progset_content(progset), progset_content(pg1), 1e-15)
                if d:
                    violate("content_changed_by_round_trip", "progbook", {"diff": d})
                d = _content_eq(progset_content(pg1), progset_content(pg2), 0)
                if d:
                    violate("second_round_trip_not_identical", "progbook", {"diff": d})
                try:
                    r1 = simulate(parset, pg1, "progbook trip 1")
                    r2 = simulate(parset, pg2, "progbook trip 2")
                    compare(base, r1, 1e-9, "behaves_unlike_own_spreadsheet", "progset", {})
                    compare(r1, r2, 0.0, "second_round_trip_not_bit_identical", "progbook", {})
                except Exception as e:
                    violate("reloaded_object_cannot_simulate", f"progbook:{_where(e)}", {"exception": f"{type(e).__name__}: {str(e)[:300]}"})

        # -- framework ----------------------------------------------------------------------
        if ch.flip("framework_trip", 0.25):
            try:
                fw1 = at.ProjectFramework(fw.to_spreadsheet())
                fw2 = at.ProjectFramework(fw1.to_spreadsheet())
                for attr in ("comps", "characs", "pars", "interactions"):
                    a, b = getattr(fw, attr), getattr(fw1, attr)
                    if list(a.index) != list(b.index):
                        violate("content_changed_by_round_trip", f"framework.{attr}", {"diff": f"index {list(a.index)[:5]} vs {list(b.index)[:5]}"})
                    else:
                        # cell by cell, irrespective of column order (NaN == NaN, numbers to 16 digits, strings stripped)
                        for col in a.columns:
                            if col not in b.columns:
                                violate("content_changed_by_round_trip", f"framework.{attr}", {"diff": f"column {col!r} missing after round trip"})
                                break
                            for key_, va, vb in zip(a.index, a[col].tolist(), b[col].tolist()):
                                na = va is None or (isinstance(va, float) and math.isnan(va))
                                nb = vb is None or (isinstance(vb, float) and math.isnan(vb))
                                if na or nb:
                                    same = na and nb
                                elif isinstance(va, (int, float)) and isinstance(vb, (int, float)):
                                    same = _num_eq(float(va), float(vb), 1e-15)
                                else:
                                    same = str(va).strip() == str(vb).strip()
                                if not same:
                                    violate("content_changed_by_round_trip", f"framework.{attr}", {"diff": f"{key_}.{col}: {va!r} vs {vb!r}"})
                                    break
                if list(fw.cascades.keys()) != list(fw1.cascades.keys()):
                    violate("content_changed_by_round_trip", "framework.cascades", {"diff": f"{list(fw.cascades.keys())} vs {list(fw1.cascades.keys())}"})
                if {k: sorted(v) for k, v in fw.transitions.items()} != {k: sorted(v) for k, v in fw1.transitions.items()}:
                    violate("content_changed_by_round_trip", "framework.transitions", {})
                Pf = at.Project(framework=fw1, databook=data.to_spreadsheet(), do_run=False)
                Pf.settings = sc.dcp(P.settings)
                psf = at.ParameterSet(fw1, Pf.data, "fwrt")
                _copy_yf(parset, psf)
                ref_ps = at.ParameterSet(fw, data1 if data1 is not None else data, "ref")
                _copy_yf(parset, ref_ps)
                rf = Pf.run_sim(psf)
                r0 = simulate(ref_ps, None, "fw in memory")
                compare(r0, rf, 1e-9, "behaviour_changed_by_round_trip", "framework", {})
                bump("fault:none_storage_roundtrip_framework")
            except at.BadInitialization:
                bump("skipped_bad_initialization")
            except Exception as e:
                violate("own_output_does_not_load", f"framework:{_where(e)}", {"exception": f"{type(e).__name__}: {str(e)[:300]}"})

        # -- calibration (y-factor table), lossless and lossy ----------------------------------
        _calibration_trips(ch, at, sc, fw, data, parset, violate, bump, history)

        raise _LegacyOnlyBinary()
    except _LegacyOnlyBinary:
        pass
    except BaseException:
        shutil.rmtree(scratch, ignore_errors=True)
        raise
    try:
        # -- binary files -------------------------------------------------------------------
        if ch.flip("binary_trip", 0.5) or legacy:
            P.parsets["state"] = parset
            if progset is not None:
                P.progsets["state"] = progset
            fn = os.path.join(scratch, "p.prj")
            P.data = data
            P.save(fn)
            P2 = at.Project.load(fn)
            ps_b = P2.parsets["state"]
            pg_b = P2.progsets["state"] if progset is not None else None
            rb = simulate(ps_b, pg_b, "after Project.save/load", proj=P2)
            compare(base, rb, 0.0, "binary_round_trip_not_bit_identical", "Project.save/load", {})
            ta = flatten(parset, exclude={"uid", "created", "modified", "gitinfo", "version", "filename", "name"})
            tb = flatten(ps_b, exclude={"uid", "created", "modified", "gitinfo", "version", "filename", "name"})
            if ta != tb:
                violate("content_changed_by_round_trip", "Project.save/load:parset", {"diff": diff_tokens(ta, tb, 3)})
            if progset is not None:
                d = _content_eq(progset_content(progset), progset_content(pg_b), 0)
                if d:
                    violate("content_changed_by_round_trip", "Project.save/load:progset", {"diff": d})
            d = _content_eq(data_content(data), data_content(P2.data), 0)
            if d:
                violate("content_changed_by_round_trip", "Project.save/load:data", {"diff": d})
            if base is not None:
                fnr = os.path.join(scratch, "r.res")
                sc.saveobj(fnr, base)
                rr = sc.loadobj(fnr)
                compare(base, rr, 0.0, "binary_round_trip_not_bit_identical", "Result save/load", {})
            bump("fault:none_storage_roundtrip_binary")
    finally:
        shutil.rmtree(scratch, ignore_errors=True)

    sig = hashlib.sha256(repr((name, use_progs, tuple(h.split("(")[0] for h in history))).encode()).hexdigest()[:16]
    if base is not None:
        bump("model_years_x1000", int(1000 * compared * (base.t[-1] - base.t[0])))
    return {
        "violations": violations,
        "stats": stats,
        "signature": sig,
        "nontrivial": bool(compared >= 1 and len(history) >= 1),
        "sample": {"project": name, "programs": use_progs, "history": history, "paired_simulations": compared, "violations": [v["cls"] for v in violations]},
        "oplog": history,
        "trace": trace,
    }


class _LegacyOnlyBinary(Exception):
    pass


def _where(e):
    import traceback

    tb = traceback.extract_tb(e.__traceback__)
    return next((f"{fr.filename.split('/atomica/')[-1]}:{fr.name}" for fr in reversed(tb) if "/atomica/" in fr.filename), "?")


def _yf(parset):
    out = {}
    for (par, pop), d in parset.y_factors.items():
        for k, v in d.items():
            out[f"{par}|{pop}|{k}"] = float(v)
    return out


def _copy_yf(src, dst):
    for par_name, par in src.pars.items():
        if par_name in dst.pars:
            dst.pars[par_name].meta_y_factor = par.meta_y_factor
            for pop, v in par.y_factor.items():
                if pop in dst.pars[par_name].y_factor:
                    dst.pars[par_name].y_factor[pop] = v
    for store_s, store_d in ((src.transfers, dst.transfers), (src.interactions, dst.interactions)):
        for name, d in store_s.items():
            for pop, par in d.items():
                if name in store_d and pop in store_d[name]:
                    store_d[name][pop].meta_y_factor = par.meta_y_factor
                    for k, v in par.y_factor.items():
                        if k in store_d[name][pop].y_factor:
                            store_d[name][pop].y_factor[k] = v


def _calibration_trips(ch, at, sc, fw, data, parset, violate, bump, history):
    import openpyxl

    # lossless: table written by the library, loaded into a freshly built parset
    src = parset.copy("cal_src")
    pars = [p for p in src.pars.values() if p.ts]
    for j in range(2):
        p = pars[ch.choose(f"cal.par[{j}]", len(pars))]
        for pop in p.y_factor:
            p.y_factor[pop] = ch.uniform("cal.val", 0.5, 1.5)
        if j == 0:
            p.meta_y_factor = ch.uniform("cal.meta", 0.9, 1.1)
    for name, d in src.transfers.items():
        for pop, par in d.items():
            for k in par.y_factor:
                par.y_factor[k] = ch.uniform("cal.transfer", 0.9, 1.1)
    try:
        ss = src.calibration_spreadsheet()
        fresh = at.ParameterSet(fw, data, "fresh")
        fresh.load_calibration(ss)
    except Exception as e:
        violate("own_output_does_not_load", f"calibration:{_where(e)}", {"exception": f"{type(e).__name__}: {str(e)[:300]}"})
        return
    d = _content_eq(_yf(src), _yf(fresh), 1e-15)
    if d:
        violate("content_changed_by_round_trip", "calibration", {"diff": d})
    bump("fault:none_storage_roundtrip_calibration")

    # lossy: the harness rewrites the table (rows dropped / unknown rows / shuffled / blank cells)
    if not ch.flip("cal.lossy", 0.7):
        return
    wb = openpyxl.load_workbook(io.BytesIO(ss.blob))
    ws = wb["Y-factors"]
    rows = [list(r) for r in ws.iter_rows(values_only=True)]
    header, body = rows[0], rows[1:]
    model = _yf(at.ParameterSet(fw, data, "model"))  # reference: dict model of the target's y-factor table (all 1.0)
    target = at.ParameterSet(fw, data, "target")
    # give the target distinctive existing values so that "missing keeps existing" is observable
    for par in target.all_pars():
        par.meta_y_factor = 1.0625
        for k in par.y_factor:
            par.y_factor[k] = 0.9375
    model = _yf(target)
    faults = []
    keep = []
    for i, r in enumerate(body):
        if ch.flip(f"cal.drop[{i}]", 0.25):
            faults.append("row_dropped")
            continue
        keep.append(r)
    if ch.flip("cal.unknown_par", 0.6):
        extra = [None] * len(header)
        extra[0], extra[1] = "no_such_parameter", None
        for c in range(2, len(header)):
            extra[c] = 1.5
        pos = ch.choose("cal.unknown_par_pos", len(keep) + 1)
        keep.insert(pos, extra)
        faults.append(f"unknown_parameter_row@{pos}")
    if src.transfers and ch.flip("cal.unknown_pop", 0.6):
        tname = list(src.transfers.keys())[0]
        extra = [None] * len(header)
        extra[0], extra[1] = tname, "no_such_pop"
        for c in range(2, len(header)):
            extra[c] = 1.5
        keep.insert(ch.choose("cal.unknown_pop_pos", len(keep) + 1), extra)
        faults.append("unknown_population_row")
    if ch.flip("cal.unknown_column", 0.4):
        header = header + ["no_such_pop_col"]
        keep = [r + [1.25] for r in keep]
        faults.append("unknown_column")
    if ch.flip("cal.shuffle", 0.5):
        keep = ch.shuffle("cal.order", keep)
        faults.append("rows_reordered")
    if keep and ch.flip("cal.blank", 0.4):
        r = keep[ch.choose("cal.blank_row", len(keep))]
        if r[0] != "no_such_parameter" and len(header) > 2:
            c = 2 + ch.choose("cal.blank_col", len(header) - 2)
            if c < len(r):
                r[c] = None
                faults.append("cell_blanked")
    # expected: known entries applied, unknown skipped, missing keep previous values
    expected = dict(model)
    for r in keep:
        par, pop = r[0], r[1]
        for c in range(2, len(header)):
            v = r[c] if c < len(r) else None
            if v is None or (isinstance(v, float) and math.isnan(v)):
                continue
            key = f"{par}|{pop}|{header[c]}"
            if key in expected:
                expected[key] = float(v)
    wb2 = openpyxl.Workbook()
    ws2 = wb2.active
    ws2.title = "Y-factors"
    ws2.append(header)
    for r in keep:
        ws2.append(r)
    buf = io.BytesIO()
    wb2.save(buf)
    for f in faults:
        bump(f"fault:calibration_{f.split('@')[0]}")
    try:
        target.load_calibration(sc.Spreadsheet(buf))
    except Exception as e:
        violate("lossy_calibration_not_tolerated", f"{_where(e)}", {"exception": f"{type(e).__name__}: {str(e)[:300]}", "faults": faults})
        return
    d = _content_eq(expected, _yf(target), 1e-15)
    if d:
        violate("lossy_calibration_wrong_values", "load_calibration", {"diff": d, "faults": faults})
    if faults:
        history.append("lossy_calibration(" + ",".join(f.split("@")[0] for f in faults) + ")")
