"""
C08 -- simulation is deterministic, leaves its inputs untouched, and survives copying.

K clients, each bound to a (project, configuration) and a small program of operations (build, deepcopy /
pickle / sc.dcp of the built model, process of original and copy, run_sim, Result and Project save/load,
scenario run), are interleaved by a seeded scheduler at operation level and at integration-stage level
(baton passing, pre-emption at Model.update_comps / update_pars / update_links / flush_junctions).
Between slices the scheduler fires environment disturbances that must not matter.

Oracles: every Result digest equals the digest of the same configuration run alone in a FRESH
interpreter under another PYTHONHASHSEED (table computed once per invocation) -- bit for bit;
deep digests of all inputs are unchanged after every operation; no client raises.
"""

import copy
import gc
import hashlib
import json
import logging
import os
import pickle
import random
import shutil
import subprocess
import sys
import tempfile

import numpy as np

ID = "C08"
LEVEL = "exploration"
VERSION = 1
RULE = (
    "one case = 1..4 clients x (corpus project, configuration variant: plain / programs / budget+stop / coverage+capacity overwrite / y-factors+dt / parameter scenario (overwrites of a parameter, a transfer and an interaction) / saved initial state reused in a recalibrated parameter set) x "
    "operation template (repeat run, build->process, deepcopy / pickle / sc.dcp then process copy and/or original, Result save/load, Project save/load, Scenario.run), interleaved by the tape at "
    "operation and integration-stage granularity with seeded disturbances (RNG reseed/advance, logger level, np.seterr, gc, unrelated sampled run); distinct = distinct (client configs, templates, baton schedule) hashes; "
    "non-trivial = at least one context switch happened inside an integration, or a copied model was processed"
)
ASSUMPTIONS = [
    "reference digests come from one isolated interpreter per invocation (PYTHONHASHSEED=4242), configurations executed one after another there",
    "pre-emption points are operations and integration stages; pre-emption inside numpy or at arbitrary bytecodes is not explored (atomica makes no thread-safety claim; C08 speaks of interleaved runs)",
    "frameworks whose functions call random generators are excluded, as the property states",
]
COMPONENTS = {"real": ["atomica Model / Population / Project.run_sim / Result / Scenario / Project.save/load", "pickle, copy.deepcopy, sciris dcp/saveobj/loadobj"], "stub": ["scheduler only: real threads parked/released one at a time (atomsim.baton)"]}

VARIANTS = ["plain", "progs", "budget", "coverage", "yfactors_dt", "parscen", "saved_init", "offgrid_end", "framework_edit", "progs_from_start", "tiny_population"]
PRIVATE_SETTINGS = ("yfactors_dt", "offgrid_end", "framework_edit")  # variants that change the project's settings: their project object is never shared
PROJECTS = ["udt", "usdt", "tb_simple", "udt_dyn", "hiv", "hypertension", "dt", "service", "timed_test", "uncertainty", "tb_simple_dyn", "hiv_dyn", "hypertension_dyn", "diabetes", "cervicalcancer", "timed_transfer", "timed_transfer_2", "timed_eligibility", "timed_indirect", "timed_indirect2", "derivative", "par_min_max", "no_compartment", "tb", "timed_tb", "legacy_scen", "legacy_nores"]
HEAVY = {"tb", "timed_tb", "legacy_scen", "legacy_nores"}
TEMPLATES = [
    ["run_sim", "run_sim"],
    ["build", "process_orig"],
    ["build", "deepcopy", "process_copy", "process_orig"],
    ["build", "pickle", "process_orig", "process_copy"],
    ["build", "dcp", "process_copy"],
    ["run_sim", "saveload_result"],
    ["saveload_project_run"],
    ["build", "deepcopy", "copy_of_copy", "process_copy", "process_orig"],
    ["scenario_run", "run_sim"],
    ["build", "pickle", "process_copy", "run_sim"],
    ["build", "caller_edits_inputs", "process_orig"],
    ["build", "deepcopy", "caller_edits_inputs", "process_copy", "process_orig"],
    ["run_sim", "caller_edits_inputs", "saveload_result"],
    ["combined_scenario_run", "run_sim"],
    ["run_sim", "sampled_sims_no_uncertainty"],
    ["build", "pickle", "combined_scenario_run", "process_copy", "process_orig"],
    ["program_scenario_run", "run_sim", "program_scenario_run"],
    ["scenario_run", "run_sim", "scenario_run"],
    ["build", "deepcopy", "adjust_copy", "process_orig"],
    ["build", "dcp", "adjust_copy", "process_orig", "run_sim"],
    ["build", "program_scenario_run", "process_orig", "program_scenario_run"],
]

_CORPUS = None
_REF = None


def budget(tier):
    if tier == "thorough":
        return {"runs": 12000, "wall": 1500, "chunk": 4, "minimise_s": 120}
    return {"runs": 700, "wall": 250, "chunk": 4, "minimise_s": 45}


def variants_for(entry):
    if entry.meta["has_progset"]:
        return list(VARIANTS)
    return ["plain", "yfactors_dt", "parscen", "saved_init", "offgrid_end", "framework_edit", "tiny_population"]


def make_config(at, P, variant):
    """Deterministic configuration of a project; the same code runs in the reference interpreter."""
    parset = P.parsets[0]
    progset = None
    instr = None
    scen = None
    start = float(P.settings.sim_start)
    if variant == "progs":
        progset = P.progsets[0]
        instr = at.ProgramInstructions(start_year=start + 2)
    elif variant == "tiny_population":
        # a per-capita style calibration: every initial stock scaled to the order of 1e-7 people, so that compartment
        # sizes sit below the model's 1e-6 tolerance for part of the run
        parset = parset.copy("tiny")
        for _, spec_ in list(P.framework.comps.iterrows()) + list(P.framework.characs.iterrows()):
            if spec_.name in parset.pars and spec_.get("setup weight", 0) and spec_["databook page"] is not None and (spec_.get("denominator") is None or not isinstance(spec_.get("denominator"), str)):
                parset.pars[spec_.name].meta_y_factor = 1e-9
    elif variant == "progs_from_start":
        # programs in force from the very first time point (initially empty target compartments are then met by the programs)
        progset = P.progsets[0]
        instr = at.ProgramInstructions(start_year=start)
    elif variant == "budget":
        progset = P.progsets[0]
        names = list(progset.programs.keys())
        alloc = {}
        sp0 = float(progset.programs[names[0]].spend_data.interpolate(start + 1.5)[0]) if progset.programs[names[0]].spend_data.has_data else 100.0
        alloc[names[0]] = 1.5 * sp0
        if len(names) > 1:
            sp1 = float(progset.programs[names[1]].spend_data.interpolate(start + 1.5)[0]) if progset.programs[names[1]].spend_data.has_data else 100.0
            alloc[names[1]] = at.TimeSeries([start + 1.5, start + 3.0], [0.5 * sp1, 2.0 * sp1])
        if len(names) > 2:
            sp2 = float(progset.programs[names[2]].spend_data.interpolate(start + 1.5)[0]) if progset.programs[names[2]].spend_data.has_data else 100.0
            alloc[names[2]] = at.TimeSeries(assumption=0.8 * sp2)  # a constant-only series (no year-specific points)
        instr = at.ProgramInstructions(start_year=start + 1.5, stop_year=start + 4.5, alloc=alloc)
    elif variant == "coverage":
        progset = P.progsets[0]
        names = list(progset.programs.keys())
        coverage = {names[0]: 0.3}
        capacity = {names[-1]: at.TimeSeries([start + 2, start + 4], [50.0, 500.0])} if len(names) > 1 else None
        instr = at.ProgramInstructions(start_year=start + 2, coverage=coverage, capacity=capacity)
    elif variant == "yfactors_dt":
        parset = parset.copy("perturbed")
        k = 0
        for par in parset.pars.values():
            if par.name in P.framework.pars.index and par.ts:
                for pop in par.y_factor:
                    par.y_factor[pop] = 1.0 + 0.05 * ((k % 5) - 2)
                    k += 1
        for name in parset.transfers:
            for src, par in parset.transfers[name].items():
                par.meta_y_factor = 0.9
        P.settings.update_time_vector(dt=0.5)
    elif variant == "offgrid_end":
        # a legal settings state: step 0.3 and the start moved afterwards, so the end year is not a whole number of
        # steps after the start (the time vector then spans start..end with the nearest number of points)
        P.settings.update_time_vector(dt=0.3)
        P.settings.update_time_vector(start=start + 1)
        if P.progsets and len(P.progsets):
            progset = P.progsets[0]
            instr = at.ProgramInstructions(start_year=start + 2)
    elif variant == "framework_edit":
        # the project's own framework object edited in place (same uid, other content): a parameter function is scaled
        fpars = P.framework.pars
        cand = [n for n in fpars.index if isinstance(fpars.at[n, "function"], str) and not str(fpars.at[n, "function"]).startswith(("SRC_", "TGT_"))]
        if not cand:
            raise ValueError("no function parameter to edit")
        n0 = cand[0]
        fpars.at[n0, "function"] = "0.5*(" + str(fpars.at[n0, "function"]) + ")"
    elif variant == "parscen":
        target = None
        # prefer a FUNCTION parameter (the overwrite then carries a skip_function window into the model), else a data parameter
        for name, par in parset.pars.items():
            if name in P.framework.pars.index and par.ts and isinstance(P.framework.pars.at[name, "function"], str) and P.framework.transitions.get(name) and not str(P.framework.pars.at[name, "function"]).startswith(("SRC_", "TGT_")):
                target = name
                break
        for name, par in parset.pars.items():
            if target is not None:
                break
            if name in P.framework.pars.index and par.ts and all(ts.has_data for ts in par.ts.values()):
                target = name
                break
        if target is None:
            target = list(parset.pars.keys())[0]
        pop = list(parset.pars[target].ts.keys())[0]
        v0 = float(parset.pars[target].interpolate(start + 2, pop)[0])
        if not np.isfinite(v0):
            v0 = 0.05  # function parameter without databook values
        values = {target: {pop: {"t": [start + 2, start + 4], "y": [v0, 0.8 * v0]}}}
        # overwrites of transfers / interactions are keyed by (from_pop, to_pop) and live outside ``parset.pars``
        for conn in (parset.transfers, parset.interactions):
            for cname, by_src in conn.items():
                src = next((s_ for s_, p_ in by_src.items() if p_.ts), None)
                if src is None or cname in values:
                    continue
                dst = list(by_src[src].ts.keys())[0]
                w0 = float(by_src[src].interpolate(start + 2, dst)[0])
                if np.isfinite(w0):
                    values[cname] = {(src, dst): {"t": [start + 2, start + 4], "y": [w0, 0.8 * w0]}}
                break
        scen = at.ParameterScenario(name="scen", scenario_values=values)
        parset = scen.get_parset(parset, P)
    elif variant == "saved_init":
        # restart from a saved state: the state is saved from a run of a donor calibration and reused in another
        # parameter set whose initialization y-factors were recalibrated afterwards (the library then only warns)
        donor = parset.copy("donor")
        r0 = P.run_sim(donor, store_results=False)
        donor.set_initialization(r0)
        import copy as _copy

        parset = parset.copy("restarted")
        parset.initialization = _copy.deepcopy(donor.initialization)
        k = 0
        for _, spec in list(P.framework.comps.iterrows()) + list(P.framework.characs.iterrows()):
            if spec.name in parset.pars and spec.get("setup weight", 0) and spec["databook page"] is not None:
                par = parset.pars[spec.name]
                if k % 2 == 0:
                    par.meta_y_factor = 1.25
                else:
                    for pop in par.y_factor:
                        par.y_factor[pop] = 0.8
                k += 1
    return parset, progset, instr, scen


def make_program_scenario(at, instr, variant):
    """The scenario-object form of a budget / coverage configuration (None for the other variants)."""
    if variant == "budget":
        return at.BudgetScenario(name="budget scenario", alloc=instr.alloc, start_year=instr.start_year)
    if variant == "coverage":
        return at.CoverageScenario(name="coverage scenario", coverage=instr.coverage, start_year=instr.start_year)
    return None


def compute_reference_table(names):
    """Digest of every (project, variant) run alone.  Executed in the isolated reference interpreter."""
    import atomica as at
    from atomsim import corpus
    from atomsim.digest import digest_result

    table = {}
    C = corpus.load()
    for name in list(names) + corpus.generated_names():
        if name not in C:
            continue
        for variant in variants_for(C[name]):
            P = C[name].project()
            try:
                parset, progset, instr, scen = make_config(at, P, variant)
                res = P.run_sim(parset, progset, instr)
                table[f"{name}/{variant}"] = digest_result(res)
                scen2 = make_program_scenario(at, instr, variant)
                if scen2 is not None:
                    P2 = C[name].project()
                    parset2, progset2, instr2, _ = make_config(at, P2, variant)
                    table[f"{name}/{variant}@scenario"] = digest_result(make_program_scenario(at, instr2, variant).run(P2, parset2, progset2, store_results=False))
            except Exception as e:
                table[f"{name}/{variant}"] = f"ERROR:{type(e).__name__}:{str(e)[:100]}"
    return table


def prepare(tier):
    global _CORPUS, _REF
    from atomsim import corpus

    _CORPUS = corpus.load()
    if _REF is None:
        env = dict(os.environ, PYTHONHASHSEED="4242", MPLBACKEND="agg")
        verif = os.path.dirname(os.path.dirname(os.path.abspath(__file__)))
        p = subprocess.run([sys.executable, "-c", "import sys,json; sys.path.insert(0,%r); import checks.c08 as c; print('REFTABLE'+json.dumps(c.compute_reference_table(c.PROJECTS)))" % verif], env=env, capture_output=True, text=True, timeout=900, cwd=verif)
        line = [l for l in p.stdout.splitlines() if l.startswith("REFTABLE")]
        if not line:
            raise RuntimeError("reference interpreter failed: " + p.stderr[-2000:])
        _REF = json.loads(line[0][len("REFTABLE") :])


def extra(tier, seed):
    bad = {k: v for k, v in _REF.items() if v.startswith("ERROR")}
    return {"reference_table": {"configs": len(_REF), "unusable": bad, "interpreter": "fresh, PYTHONHASHSEED=4242"}}


def run(ch, idx, tier):
    import atomica as at
    import atomica.model as amodel
    import sciris as sc
    from atomsim import seams
    from atomsim.baton import Baton, current_client
    from atomsim.digest import digest_obj, digest_result, diff_obj, flatten, diff_tokens

    stats = {}

    def bump(k, n=1):
        stats[k] = stats.get(k, 0) + n

    violations = []
    oplog = []

    def violate(cls, site, detail):
        if not any(v["cls"] == cls and v["site"] == site for v in violations):
            violations.append({"cls": cls, "site": site, "detail": detail})

    from atomsim import corpus as _corpus_mod

    names = [n for n in PROJECTS if n in _CORPUS and n not in HEAVY] + _corpus_mod.generated_names()
    heavy = [n for n in PROJECTS if n in _CORPUS and n in HEAVY]
    K = 1 + ch.choose("n_clients", 4)
    stride = [1, 1, 3, 10, 37][ch.choose("baton_stride", 5)]
    fine_grained = ch.flip("fine_grained_preemption", 0.35)
    p_disturb = [0.0, 0.05, 0.2][ch.choose("disturb_rate", 3)]
    scratch = tempfile.mkdtemp(prefix="atomsim_c08_", dir=os.environ.get("VERIF_SCRATCH"))

    # ---- clients ----------------------------------------------------------------------
    clients = []
    shared_projects = {}
    for k in range(K):
        pool = names
        if heavy and ch.flip(f"client[{k}].heavy", 0.03):
            pool = heavy
        name = pool[ch.choose(f"client[{k}].project", len(pool))]
        entry = _CORPUS[name]
        vs = [v for v in variants_for(entry) if not _REF.get(f"{name}/{v}", "ERROR").startswith("ERROR")]
        variant = vs[ch.choose(f"client[{k}].variant", len(vs))]
        tpl = list(TEMPLATES[ch.choose(f"client[{k}].template", len(TEMPLATES))])
        share = variant not in PRIVATE_SETTINGS and name in shared_projects and ch.flip(f"client[{k}].share_project", 0.5)
        if "caller_edits_inputs" in tpl:
            P = entry.project()  # a client that will edit its settings / data later owns its project
        elif share:
            P = shared_projects[name]
            bump("probe:clients_share_project_object")
        else:
            P = entry.project()
            if variant not in PRIVATE_SETTINGS:
                shared_projects.setdefault(name, P)
        base_before = flatten(P.parsets[0]) if variant == "parscen" else None
        parset, progset, instr, scen = make_config(at, P, variant)
        if base_before is not None and flatten(P.parsets[0]) != base_before:
            # the scenario's parameter set is derived from the caller's, which is an input like any other
            violate("input_modified", "base_parset by ParameterScenario.get_parset", {"client": k, "project": name, "variant": variant, "op": "ParameterScenario.get_parset", "diff": diff_tokens(base_before, flatten(P.parsets[0]), 4)})
        if "caller_edits_inputs" in tpl:
            # this client will edit its inputs after building: give it private (equal) copies, the snapshots below are taken from them
            import sciris as _sc

            parset, progset, instr = _sc.dcp(parset), _sc.dcp(progset), _sc.dcp(instr)
        if variant != "parscen":
            tpl = [op for op in tpl if op != "scenario_run"] or ["run_sim"]
        if variant in ("yfactors_dt", "parscen", "saved_init", "tiny_population"):  # their parameter set is not the stored one of the project
            tpl = [op if op != "saveload_project_run" else "run_sim" for op in tpl]
        inputs = {"parset": parset, "progset": progset, "instructions": instr, "framework": P.framework, "data": P.data, "settings": P.settings}
        if variant == "parscen":
            inputs["base_parset"] = P.parsets[0]
            inputs["scenario"] = scen
        prog_scen = make_program_scenario(at, instr, variant) if instr is not None else None
        if prog_scen is not None:
            inputs["program_scenario"] = prog_scen
        else:
            tpl = [op if op != "program_scenario_run" else "run_sim" for op in tpl]
        snap = {k2: flatten(v) for k2, v in inputs.items()}
        clients.append({"prog_scen": prog_scen, "scen_ref": _REF.get(f"{name}/{variant}@scenario"), "k": k, "name": name, "variant": variant, "template": tpl, "P": P, "parset": parset, "progset": progset, "instr": instr, "scen": scen, "inputs": inputs, "snap": snap, "ref": _REF[f"{name}/{variant}"], "results": 0})

    # ---- pre-emption inside the integration ----------------------------------------------
    baton_holder = {}

    def wrap_stage(stage):
        orig = getattr(amodel.Model, stage)

        def wrapper(self, *a, **k):
            b = baton_holder.get("b")
            if b is not None:
                b.yield_point(stage)
            return orig(self, *a, **k)

        wrapper.__name__ = stage
        return wrapper

    for stage in ("update_comps", "update_pars", "update_links", "flush_junctions"):
        seams.patch(amodel.Model, stage, wrap_stage(stage))

    # pre-emption inside model construction as well (population by population)
    def wrap_pop(name_):
        orig = getattr(amodel.Population, name_)

        def wrapper(self, *a, **k):
            b = baton_holder.get("b")
            if b is not None:
                b.yield_point(name_)
            return orig(self, *a, **k)

        wrapper.__name__ = name_
        return wrapper

    for name_ in ("build", "initialize_compartments"):
        seams.patch(amodel.Population, name_, wrap_pop(name_))

    # fine-grained pre-emption (chosen for a third of the runs): inside a stage, at every parameter evaluation,
    # outflow resolution, junction balancing and program outcome computation
    if fine_grained:
        import atomica.programs as aprogs

        def wrap_any(cls, name_):
            orig = cls.__dict__[name_]

            def wrapper(self, *a, **k):
                b = baton_holder.get("b")
                if b is not None:
                    b.yield_point(name_)
                return orig(self, *a, **k)

            wrapper.__name__ = name_
            return wrapper

        for cls, name_ in [(amodel.Parameter, "update"), (amodel.Parameter, "constrain"), (amodel.Compartment, "resolve_outflows"), (amodel.TimedCompartment, "resolve_outflows"), (amodel.JunctionCompartment, "balance"), (amodel.ResidualJunctionCompartment, "balance"), (amodel.Compartment, "update"), (amodel.TimedCompartment, "update"), (amodel.Characteristic, "update"), (aprogs.Covout, "get_outcome")]:
            seams.patch(cls, name_, wrap_any(cls, name_))
        bump("probe:fine_grained_preemption")

    # ---- disturbances ----------------------------------------------------------------------
    dist_entry = _CORPUS[names[0]]
    dist_P = dist_entry.project()

    dstate = {"decisions": 0, "fired": 0}

    def disturb(b):
        # at most 80 decisions and 12 disturbances per run (fine-grained runs have thousands of slices)
        if not p_disturb or dstate["decisions"] >= 80 or dstate["fired"] >= 12:
            return
        dstate["decisions"] += 1
        if not ch.flip("disturb", p_disturb):
            return
        dstate["fired"] += 1
        kind = ch.choose("disturb.kind", 8)
        if kind == 0:
            np.random.seed(ch.choose("disturb.seed", 2**31 - 1))
            bump("fault:np_random_reseeded")
        elif kind == 1:
            np.random.randn(1 + ch.choose("disturb.advance", 50))
            bump("fault:np_random_advanced")
        elif kind == 2:
            random.seed(ch.choose("disturb.pyseed", 2**31 - 1))
            bump("fault:py_random_reseeded")
        elif kind == 3:
            at.logger.setLevel([logging.ERROR, logging.WARNING, logging.CRITICAL][ch.choose("disturb.level", 3)])
            bump("fault:logger_level_changed")
        elif kind == 4:
            np.seterr(all=["ignore", "warn"][ch.choose("disturb.seterr", 2)])
            bump("fault:np_seterr_changed")
        elif kind == 5:
            gc.collect()
            bump("fault:gc_collect")
        elif kind == 6:
            ps = dist_P.parsets[0]
            for par in list(ps.pars.values())[:3]:
                for ts in par.ts.values():
                    ts.sigma = 0.01
            dist_P.run_sim(ps.sample())
            bump("fault:unrelated_sampled_run")
        else:
            dist_P.run_sim(dist_P.parsets[0])
            bump("fault:unrelated_plain_run")

    # ---- client bodies ----------------------------------------------------------------------
    returned = []  # (client, Result as returned by run_sim, digest at the moment it was returned)

    def check_inputs(c, op):
        for k2, v in c["inputs"].items():
            now = flatten(v)
            if now != c["snap"][k2]:
                violate("input_modified", f"{k2} by {op}", {"client": c["k"], "project": c["name"], "variant": c["variant"], "op": op, "diff": diff_tokens(c["snap"][k2], now, 4)})
                c["snap"][k2] = now  # report once per change

    def check_result(c, res, op, ref=None):
        d = digest_result(res)
        ref_ = ref if ref is not None else c["ref"]
        c["results"] += 1
        if op == "run_sim":
            returned.append((c, res, d))
        bump("evaluations")
        bump("model_years_x1000", int(1000 * (res.t[-1] - res.t[0])))
        oplog.append([c["k"], op, d])
        if d != ref_:
            # site = the kind of operation that produced the result (the full path of operations is in the detail)
            kind_ = op.split("+")[-1] if "+" in op else op
            violate("output_differs_from_isolated_run", kind_, {"client": c["k"], "project": c["name"], "variant": c["variant"], "op": op, "template": c["template"], "digest": d, "reference": ref_, "n_clients": K})

    def body(c, bc):
        b = baton_holder["b"]
        P, parset, progset, instr = c["P"], c["parset"], c["progset"], c["instr"]
        M = Mc = R = None
        path = []
        restore = []
        for op in c["template"]:
            b.yield_point("op")
            path.append(op)
            if op == "run_sim":
                if edited.get(c["k"]):
                    continue  # a run from edited inputs is a different configuration; nothing to compare it with
                # every second client stores its run in the project under an explicit (re-used) name: storing a run
                # is bookkeeping, it must not touch a Result handed out earlier (to this client or to one sharing the project)
                named = (c["k"] + idx) % 2 == 0
                R = P.run_sim(parset, progset, instr, store_results=True, result_name="named run") if named else P.run_sim(parset, progset, instr)
                check_result(c, R, "run_sim")
                if named:
                    # ... and runs again under the same name after touching up a calibration factor (on a copy)
                    q_ = parset.copy()
                    for nm_ in P.framework.pars.index:
                        if nm_ in q_.pars and P.framework.transitions.get(nm_):
                            q_.pars[nm_].meta_y_factor = 0.5 * q_.pars[nm_].meta_y_factor
                    try:
                        P.run_sim(q_, progset, instr, store_results=True, result_name="named run")
                        bump("probe:second_stored_run_under_the_same_name")
                    except Exception:
                        # the touched-up copy is the harness's own construction and may be an invalid request (e.g. a halved
                        # duration next to a saved initial state): a refusal of it is not judged
                        bump("second_stored_run_refused")
            elif op == "build":
                M = amodel.Model(P.settings, P.framework, parset, progset, instr)
            elif op == "deepcopy":
                Mc = copy.deepcopy(M)
            elif op == "copy_of_copy":
                Mc = copy.deepcopy(Mc)
            elif op == "pickle":
                Mc = pickle.loads(pickle.dumps(M))
            elif op == "dcp":
                Mc = sc.dcp(M)
            elif op == "adjust_copy":
                # what an optimisation does to its private copy of a built model: new spending points entered into the
                # copy's own instructions (and parameters scaled) - the original model and the caller's objects are not involved
                if Mc is not None and Mc.program_instructions is not None:
                    for ts_ in list(Mc.program_instructions.alloc.values()) + list(Mc.program_instructions.capacity.values()) + list(Mc.program_instructions.coverage.values()):
                        if isinstance(ts_.t, list):
                            ts_.insert(float(Mc.t[-1]) - 1.0, 7.0)
                    if Mc.progset is not None:
                        for prog_ in Mc.progset.programs.values():
                            for ts_ in (prog_.unit_cost, prog_.capacity_constraint, prog_.saturation):
                                if isinstance(ts_.t, list):
                                    ts_.insert(float(Mc.t[-1]) - 1.0, 0.7)
                    bump("probe:copy_of_built_model_adjusted")
            elif op == "process_orig":
                M.process()
                R = at.Result(M, parset)
                check_result(c, R, "+".join(p for p in path if p not in ("process_copy", "run_sim")))
                bump("probe:original_processed_after_copy" if Mc is not None or "process_copy" in path else "probe:built_model_processed")
            elif op == "process_copy":
                Mc.process()
                R = at.Result(Mc, parset)
                check_result(c, R, "+".join(p for p in path if p not in ("process_orig", "run_sim")))
                bump("probe:copied_model_processed")
            elif op == "saveload_result":
                fn = os.path.join(scratch, f"r{c['k']}.res")
                sc.saveobj(fn, R)
                R2 = sc.loadobj(fn)
                check_result(c, R2, "Result save/load")
            elif op == "saveload_project_run":
                fn = os.path.join(scratch, f"p{c['k']}.prj")
                old_fn = P.filename
                sc.saveobj(fn, P)
                P2 = at.Project.load(fn)
                ps2 = P2.parsets[0]
                pg2 = P2.progsets[0] if progset is not None else None
                R = P2.run_sim(ps2, pg2, instr)
                check_result(c, R, "Project save/load+run_sim")
            elif op == "caller_edits_inputs":
                # The model copied progset / instructions / framework when it was built and read everything it needs
                # from the parset, so whatever the caller now does with ITS objects must not reach a built model or an
                # existing Result.  (The client works on private copies from here on, so that its later operations and the
                # other clients that share the project object still see the original inputs.)
                if instr is not None:
                    for ts in instr.alloc.values():
                        ts.vals = [v * 3.0 + 1.0 for v in ts.vals]
                    instr.alloc["__caller_edit__"] = at.TimeSeries(instr.start_year, 123.0)
                    instr.start_year = instr.start_year + 1.0
                if progset is not None:
                    for prog in progset.programs.values():
                        prog.unit_cost.vals = [v * 2.0 for v in prog.unit_cost.vals]
                        if prog.unit_cost.assumption is not None:
                            prog.unit_cost.assumption *= 2.0
                    for co in progset.covouts.values():
                        co.baseline = co.baseline * 0.5
                        co.update_outcomes()
                for par in parset.pars.values():
                    par.meta_y_factor *= 1.25
                    for ts_ in par.ts.values():
                        ts_.vals = [v * 1.5 for v in ts_.vals]
                        if ts_.assumption is not None:
                            ts_.assumption *= 1.5
                # ... and with its project's settings and databook
                P.settings.update_time_vector(end=P.settings.sim_end + 3, dt=P.settings.sim_dt * 2)
                for tdve in list(P.data.tdve.values())[:3]:
                    for ts_ in tdve.ts.values():
                        ts_.vals = [v * 0.5 for v in ts_.vals]
                bump("fault:caller_edits_its_inputs_after_build")
                # restore the caller's objects for whoever shares them; the built model / result must not have noticed
                restore.append(True)
            elif op == "combined_scenario_run":
                if edited.get(c["k"]):
                    continue
                cs = at.CombinedScenario(name="combined", instructions=instr)
                R = cs.run(P, parset, progset, store_results=False)
                check_result(c, R, "CombinedScenario.run")
            elif op == "sampled_sims_no_uncertainty":
                # with no uncertainty entered anywhere a sampled run is the plain run (serial path, 2 samples)
                if edited.get(c["k"]) or c["name"] in ("uncertainty", "uncertainty_low") or (_CORPUS[c["name"]].meta.get("generated_spec") or {}).get("uncertainty"):
                    continue
                # (the equality of a sampled run without uncertainty and the plain run is C17's statement: here the call
                # only acts as one more run sharing the process - its inputs must stay unchanged, its outputs are counted)
                rs = P.run_sampled_sims(parset, progset=progset, progset_instructions=instr, n_samples=2)
                for r_ in rs:
                    if digest_result(r_[0]) != c["ref"]:
                        bump("observed_beyond_property:sampled_run_without_uncertainty_differs")
            elif op == "scenario_run":
                R = c["scen"].run(P, P.parsets[0], store_results=False)
                check_result(c, R, "Scenario.run")
            elif op == "program_scenario_run":
                if edited.get(c["k"]) or not c["scen_ref"] or c["scen_ref"].startswith("ERROR"):
                    continue
                R = c["prog_scen"].run(P, parset, progset, store_results=False)
                bump("probe:program_scenario_object_run")
                check_result(c, R, type(c["prog_scen"]).__name__ + ".run", ref=c["scen_ref"])
            if op == "caller_edits_inputs":
                # the edit is deliberate: re-snapshot what the caller now owns (later operations must leave THAT unchanged)
                for k2 in ("parset", "progset", "instructions", "settings", "data"):
                    if c["inputs"].get(k2) is not None:
                        c["snap"][k2] = flatten(c["inputs"][k2])
                edited[c["k"]] = True
                continue
            check_inputs(c, op)

    edited = {}

    def between(b):
        disturb(b)

    b = Baton(ch, stride=stride, between=between)
    baton_holder["b"] = b
    for c in clients:
        b.add(lambda bc, c=c: body(c, bc))
    try:
        b.run()
        for c, bc in zip(clients, b.clients):
            if bc.exc is not None:
                import traceback

                tb = traceback.extract_tb(bc.exc.__traceback__)
                where = next((f"{fr.filename.split('/atomica/')[-1]}:{fr.name}" for fr in reversed(tb) if "/atomica/" in fr.filename), "harness")
                if where == "harness":
                    raise bc.exc
                violate("client_raises", where, {"client": c["k"], "project": c["name"], "variant": c["variant"], "template": c["template"], "exception": f"{type(bc.exc).__name__}: {str(bc.exc)[:300]}", "n_clients": K})
    finally:
        shutil.rmtree(scratch, ignore_errors=True)
    for c_, res_, d_ in returned:
        # the outputs of a run stay what they were when it returned, whatever ran afterwards in the process
        if digest_result(res_) != d_:
            violate("returned_result_changed_by_later_run", "run_sim", {"client": c_["k"], "project": c_["name"], "variant": c_["variant"], "template": c_["template"], "n_clients": K})
    bump("probe:returned_results_rechecked_at_end", len(returned))

    in_process_switches = b.switches
    bump("context_switches", b.switches)
    if b.switches:
        bump("probe:interleaved_inside_integration")
    copied = any(op in ("process_copy",) for c in clients for op in c["template"])
    sig = hashlib.sha256(repr(([(c["name"], c["variant"], tuple(c["template"])) for c in clients], tuple(b.schedule))).encode()).hexdigest()[:16]
    return {
        "violations": violations,
        "stats": stats,
        "signature": sig,
        "nontrivial": bool(b.switches or copied),
        "sample": {"clients": [{"project": c["name"], "variant": c["variant"], "template": c["template"]} for c in clients], "baton_stride": stride, "context_switches": b.switches, "schedule_head": b.schedule[:40], "disturb_rate": p_disturb},
        "oplog": oplog,
    }
