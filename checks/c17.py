"""
C17 -- sampled runs are independent draws, serial or parallel, and do not alter sources.

System under simulation: Project.run_sampled_sims / Ensemble.run_sims (real code) on a simulated
fork pool (atomsim.simpool): N simulated worker processes carrying forked RNG state, a seeded
scheduler deciding task->worker assignment and completion order, BadInitialization retry faults.
"""

import functools
import hashlib
import itertools
import os

import numpy as np

from atomsim import corpus, seams
from atomsim.digest import digest_obj, digest_result, diff_obj
from atomsim.simpool import SimWorld, schedule_signature

ID = "C17"
LEVEL = "exploration"
VERSION = 1
RULE = (
    "one case = one call of run_sampled_sims / Ensemble.run_sims on a corpus project with seeded (sigma mode, "
    "programs on/off, n samples 2..32, serial or parallel on 1..16 simulated forked workers, prior RNG state, retry faults, "
    "task->worker assignment and completion order); distinct = distinct (api, mode, n, workers, assignment, completion order) tuples; "
    "non-trivial = the oracle compared at least two samples with a non-empty perturbation (or a zero-uncertainty sample with the unsampled run)"
)
ASSUMPTIONS = [
    "the process pool, manager, pids, cpu_count and OS entropy are stubs (atomsim.simpool); fidelity argued by the real-pool cross-check in the thorough tier",
    "all sampling goes through numpy's legacy global generator or a generator seeded from the simulated entropy source",
    "two independent float64 normal draws never collide",
]
COMPONENTS = {
    "real": ["atomica (project, parameters, programs, utils.parallel_progress, results.Ensemble, model)", "sciris.parallelize driver", "numpy RandomState", "pickle/dill payload round trips"],
    "stub": ["multiprocessing.pool.Pool / multiprocess.Pool -> SimPool", "Manager -> in-process proxies", "os.getpid / os.urandom / cpu_count / current_process -> SimWorld", "OS entropy for np.random.seed(None), default_rng(None), SeedSequence(None)"],
}

_CORPUS = None
PROJECTS = ["udt", "usdt", "tb_simple", "uncertainty", "uncertainty_low", "hiv", "hypertension", "udt_dyn", "tb_simple_dyn", "hypertension_dyn", "timed_test", "hiv_dyn", "diabetes"]


def budget(tier):
    if tier == "thorough":
        return {"runs": 6000, "wall": 1500, "chunk": 4, "minimise_s": 120}
    return {"runs": 600, "wall": 250, "chunk": 4, "minimise_s": 45}


def prepare(tier):
    global _CORPUS
    _CORPUS = corpus.load()


class _EnumChooser:
    """Chooser whose scheduler decisions ('pool.event') follow a given prefix (then 0) and whose configuration is forced."""

    def __init__(self, forced, prefix, seed_parts):
        from atomsim.chooser import Chooser, RandomSource, derive_seed

        self._c = Chooser(RandomSource(derive_seed(*seed_parts)))
        self.forced = forced
        self.prefix = list(prefix)
        self.arities = []
        self.pos = 0
        self.tape = self._c.tape
        self.marks = self._c.marks

    def choose(self, label, n):
        n = max(1, int(n))
        if label == "pool.event":
            v = self.prefix[self.pos] if self.pos < len(self.prefix) else 0
            self.pos += 1
            self.arities.append(n)
            v = min(v, n - 1)
            self.tape.append([label, n, v])
            return v
        if label in self.forced:
            v = self.forced[label]
            self.tape.append([label, n, v])
            return v
        return self._c.choose(label, n)

    def __getattr__(self, name):  # flip / pick / uniform ... are built on choose()
        import types
        from atomsim.chooser import Chooser

        f = getattr(Chooser, name)
        return types.MethodType(f, self)


def enumerate_schedules(project, n, w, seed, limit=4000):
    """ALL task->worker assignments and completion orders of one small parallel call (odometer over scheduler choices)."""
    from atomsim.chooser import REAL_RES

    names = [nm for nm in PROJECTS if nm in _CORPUS] + corpus.generated_names()
    forced = {
        "project": names.index(project), "use_programs": 0, "explicit_interactions": 0, "sigma_mode": 0, "api": 0, "parallel": REAL_RES - 1,
        "n_samples": n - 2, "n_samples'": n - 2, "cpu_count": w - 1, "explicit_workers": REAL_RES - 1, "workers": w - 1, "workers'": w - 1,
        "prior_rng": 0, "retry_rate": 0,
    }
    for i in range(w):
        forced[f"pool.late[{i}]"] = 0
    prefix = []
    count = 0
    violations = []
    sigs = set()
    while count < limit:
        ch = _EnumChooser(forced, prefix, ("c17-enum", seed, project, n, w))
        try:
            r = run(ch, 0, "quick")
        finally:
            seams.restore_all()  # as the driver does after every run: without it the patched wrappers nest run after run
        count += 1
        sigs.add(r["signature"])
        for v in r["violations"]:
            violations.append((v["cls"], v["site"], list(prefix)))
        # odometer: next prefix in lexicographic order over the arities actually seen
        ar = ch.arities
        pre = (list(prefix) + [0] * len(ar))[: len(ar)]
        k = len(ar) - 1
        while k >= 0 and pre[k] >= ar[k] - 1:
            k -= 1
        if k < 0:
            return {"project": project, "n": n, "workers": w, "schedules": count, "distinct": len(sigs), "exhaustive": True, "violations": violations[:5]}
        prefix = pre[:k] + [pre[k] + 1]
    return {"project": project, "n": n, "workers": w, "schedules": count, "distinct": len(sigs), "exhaustive": False, "violations": violations[:5]}


def extra(tier, seed):
    """
    Stub fidelity (DESIGN 3.3): the same call on the REAL fork pools and on the simulated pool, from the same parent
    RNG state, must give the same samples in the same order.  Real executions are evidence about the stub, never
    the deciding step for the property.
    """
    import logging
    import numpy as np
    import atomica as at
    from atomsim.chooser import random_chooser

    at.logger.setLevel(logging.ERROR)
    out = {"stub_fidelity": {"cases": 0, "mismatches": []}}
    errors = []
    cases = [("udt", 6, 2, False), ("udt", 5, 3, True), ("hypertension", 4, 2, True)]
    if tier == "thorough":
        cases += [("gen05", 8, 4, True), ("tb_simple", 7, 1, True), ("usdt", 9, 5, True)]
    for name, n, w, progs in cases:
        if name not in _CORPUS:
            continue

        def build():
            P = _CORPUS[name].project()
            ps = P.parsets[0]
            pg = P.progsets[0] if (progs and len(P.progsets)) else None
            for par in ps.all_pars():
                for ts in par.ts.values():
                    if ts.has_data:
                        vals = [abs(v) for v in ts.vals] + ([abs(ts.assumption)] if ts.assumption is not None else [])
                        ts.sigma = 0.01 * (max(vals) if vals and max(vals) > 0 else 1.0)
            instr = [at.ProgramInstructions(start_year=float(P.settings.sim_start + 2))] if pg is not None else None
            return P, ps, pg, instr

        try:
            P, ps, pg, instr = build()
            np.random.seed(seed % 2**31)
            real = P.run_sampled_sims(ps, progset=pg, progset_instructions=instr, n_samples=n, parallel=True, num_workers=w)
            real_d = [[digest_result(r) for r in rs] for rs in real]
            P, ps, pg, instr = build()
            ch = random_chooser("c17-fidelity", seed, name, n, w)
            world = SimWorld(ch, seed=1, cpu_count=w)
            with seams.patched():
                world.install()
                np.random.seed(seed % 2**31)
                world.main.capture()
                sim = P.run_sampled_sims(ps, progset=pg, progset_instructions=instr, n_samples=n, parallel=True, num_workers=w)
                world.current = world.main
            world.close()
            sim_d = [[digest_result(r) for r in rs] for rs in sim]
            out["stub_fidelity"]["cases"] += 1
            if real_d != sim_d:
                out["stub_fidelity"]["mismatches"].append({"project": name, "n": n, "workers": w, "real_distinct": len({tuple(x) for x in real_d}), "sim_distinct": len({tuple(x) for x in sim_d})})
        except Exception as e:
            errors.append(f"stub fidelity case {name}/{n}/{w} failed to run: {type(e).__name__}: {e}")
    if out["stub_fidelity"]["mismatches"]:
        errors.append(f"STUB-FIDELITY: real pool and simulated pool disagree: {out['stub_fidelity']['mismatches']}")
    # exhaustive enumeration of the schedule space for tiny pools
    enum_cases = [("udt", 2, 2), ("udt", 3, 2)] + ([("udt", 4, 3), ("tb_simple", 4, 2), ("udt", 3, 3)] if tier == "thorough" else [])
    out["schedule_enumeration"] = []
    for project, n, w in enum_cases:
        try:
            e = enumerate_schedules(project, n, w, seed)
            out["schedule_enumeration"].append(e)
            if e["violations"]:
                errors.append(f"ENUMERATION-VIOLATION (not minimised, see quick batch for replay files): {e['violations'][:2]}")
        except Exception as ex:
            errors.append(f"schedule enumeration {project}/{n}/{w} failed: {type(ex).__name__}: {ex}")
    out["errors"] = errors
    return out


class BadInitFault:
    """Counted wrapper: makes chosen attempts of a sampled run fail with BadInitialization."""

    def __init__(self, ch, p, stats):
        self.ch, self.p, self.stats = ch, p, stats
        self.consecutive = 0


def _set_sigmas(ch, P, parset, progset, mode):
    """mode: asis | positive | zero | none | mixed.  Returns number of quantities with sigma>0."""
    npos = 0
    if mode == "asis":
        for par in parset.all_pars():
            for ts in par.ts.values():
                if ts.sigma:
                    npos += 1
        if progset is not None:
            for prog in progset.programs.values():
                for ts in (prog.spend_data, prog.unit_cost, prog.capacity_constraint, prog.saturation, prog.coverage):
                    if ts.sigma and ts.has_data:
                        npos += 1
            for co in progset.covouts.values():
                if co.sigma:
                    npos += 1
        return npos

    def decide(label):
        if mode == "positive":
            return "pos"
        if mode == "zero":
            return "zero"
        if mode == "none":
            return "none"
        return ["none", "zero", "pos"][ch.choose(label, 3)]

    k = 0
    for par in parset.all_pars():
        for pop, ts in par.ts.items():
            k += 1
            d = decide(f"sigma.par[{k}]")
            if d == "none":
                ts.sigma = None
            elif d == "zero":
                ts.sigma = 0.0
            else:
                if not ts.has_data:
                    ts.sigma = None
                    continue
                vals = [abs(v) for v in ts.vals] + ([abs(ts.assumption)] if ts.assumption is not None else [])
                if par.name not in P.framework.pars.index and not (vals and max(vals) > 0):
                    # an initial compartment size / characteristic of exactly zero: every second draw would be negative
                    # and rejected (per population), which exhausts the library's attempts - not an input worth posing
                    ts.sigma = None
                    continue
                scale = max(vals) if vals and max(vals) > 0 else 1.0
                ts.sigma = 0.01 * scale
                npos += 1
    if progset is not None:
        for prog in progset.programs.values():
            for nm in ("spend_data", "unit_cost"):
                ts = getattr(prog, nm)
                k += 1
                d = decide(f"sigma.prog[{k}]")
                if d == "none":
                    ts.sigma = None
                elif d == "zero":
                    ts.sigma = 0.0
                elif ts.has_data:
                    vals = [abs(v) for v in ts.vals] + ([abs(ts.assumption)] if ts.assumption is not None else [])
                    ts.sigma = 0.01 * (max(vals) if vals and max(vals) > 0 else 1.0)
                    npos += 1
            only_constraints = False
            for nm in ("capacity_constraint", "saturation", "coverage"):
                ts = getattr(prog, nm)
                k += 1
                d = decide(f"sigma.prog_constraint[{k}]")
                if d == "none" or not ts.has_data:
                    ts.sigma = None
                elif d == "zero":
                    ts.sigma = 0.0
                else:
                    vals = [abs(v) for v in ts.vals] + ([abs(ts.assumption)] if ts.assumption is not None else [])
                    ts.sigma = 0.01 * (max(vals) if vals and max(vals) > 0 else 1.0)
                    npos += 1
                    only_constraints = True
            if only_constraints and ch.flip(f"sigma.only_constraints[{k}]", 0.4):
                # uncertainty entered for the constraints of a program but not for its cost function
                for nm in ("spend_data", "unit_cost"):
                    if getattr(prog, nm).sigma:
                        npos -= 1
                    getattr(prog, nm).sigma = None
        for co in progset.covouts.values():
            k += 1
            d = decide(f"sigma.covout[{k}]")
            if d == "none":
                co.sigma = None
            elif d == "zero":
                co.sigma = 0.0
            else:
                co.sigma = 0.01 * max([abs(v) for v in co.progs.values()] + [abs(co.baseline), 1e-3])
                if co.progs:
                    npos += 1
    return npos


def _perturbation(old, new, kind):
    """Vector of (new - old) over all quantities of ``old`` with sigma > 0."""
    vec = []
    if kind == "parset":
        for po, pn in zip(old.all_pars(), new.all_pars()):
            for pop in po.ts:
                to, tn = po.ts[pop], pn.ts[pop]
                if to.sigma:
                    if to.assumption is not None:
                        vec.append(tn.assumption - to.assumption)
                    vec.extend(b - a for a, b in zip(to.vals, tn.vals))
    else:
        for name in old.programs:
            po, pn = old.programs[name], new.programs[name]
            for nm in ("spend_data", "unit_cost", "capacity_constraint", "saturation", "coverage"):
                to, tn = getattr(po, nm), getattr(pn, nm)
                if to.sigma:
                    if to.assumption is not None:
                        vec.append(tn.assumption - to.assumption)
                    vec.extend(b - a for a, b in zip(to.vals, tn.vals))
        for key in old.covouts:
            co, cn = old.covouts[key], new.covouts[key]
            if co.sigma:
                for p in co.progs:
                    vec.append(cn.progs[p] - co.progs[p])
    return vec


def _shared_series(old, new, kind):
    """Names of time series of the sample that are the very object the source holds ("sampling returns ... copies")."""
    shared = []
    if kind == "parset":
        src = {id(ts) for par in old.all_pars() for ts in par.ts.values()}
        for par in new.all_pars():
            shared += [f"{par.name}/{pop}" for pop, ts in par.ts.items() if id(ts) in src]
    else:
        names = ("spend_data", "unit_cost", "capacity_constraint", "saturation", "coverage")
        src = {id(getattr(pr, nm)) for pr in old.programs.values() for nm in names}
        for pr in new.programs.values():
            shared += [f"{pr.name}.{nm}" for nm in names if id(getattr(pr, nm)) in src]
    return shared


def _mapping_function(results, outputs=None):
    """Ensemble mapping function (module level so that pickle/dill ship it by reference)."""
    import atomica as at

    return at.PlotData(results, outputs=outputs)


def run(ch, idx, tier):
    import atomica as at
    import atomica.project as aproj
    import atomica.parameters as aparams
    import atomica.programs as aprogs
    import atomica.model as amodel

    stats = {}

    def bump(k, n=1):
        stats[k] = stats.get(k, 0) + n

    violations = []
    oplog = []

    # ---- workload ---------------------------------------------------------------------
    names = [n for n in PROJECTS if n in _CORPUS] + corpus.generated_names()
    name = ch.pick("project", names)
    entry = _CORPUS[name]
    P = entry.project()
    parset = P.parsets[0]
    use_progs = entry.meta["has_progset"] and ch.flip("use_programs", 0.6)
    progset = P.progsets[0] if use_progs else None
    n_instr = 1
    instructions = None
    result_names = None
    if use_progs:
        n_instr = 1 + ch.choose("n_instructions", 3)
        start = float(np.floor(P.settings.sim_start + 2))
        instructions = [at.ProgramInstructions(start_year=start + i) for i in range(n_instr)]
        if ch.flip("result_names", 0.3):
            result_names = [f"scenario {i}" for i in range(n_instr)]
    explicit_inter = False
    if use_progs and ch.flip("explicit_interactions", 0.35):
        # program book with explicit interaction outcomes ("A+B=value"), as the effects sheet allows
        for key, co in list(progset.covouts.items()):
            if len(co.progs) >= 2:
                names2 = list(co.progs.keys())[:2]
                val = 0.5 * (co.progs[names2[0]] + co.progs[names2[1]]) * 1.0123456789  # an outcome that needs many digits
                inter = ch.pick("cov_interaction", ["additive", "random", "nested"])
                progset.covouts[key] = at.programs.Covout(co.par, co.pop, dict(co.progs), cov_interaction=inter, imp_interaction=f"{names2[0]}+{names2[1]}={val:.12g}", uncertainty=co.sigma, baseline=co.baseline)
                explicit_inter = True
    mode = ch.pick("sigma_mode", ["positive", "asis", "mixed", "zero", "none"])
    if mode == "asis" and name not in ("uncertainty", "uncertainty_low"):
        mode = "positive"
    if ch.flip("saved_initialization", 0.2) and not entry.meta["timed"]:  # (a saved state fixes the rows of timed compartments, so it cannot be combined with sampled durations)
        # the source parameter set carries a saved initial state (taken from a later year of a plain run): every
        # sampled copy starts from it, as the source does
        try:
            r_init = P.run_sim(parset, store_results=False)
            parset.set_initialization(r_init, float(r_init.t[len(r_init.t) // 2]))
            bump("probe:source_carries_saved_initialization")
        except Exception:
            parset.initialization = None
    if ch.flip("zero_valued_constant", 0.3):
        # a quantity entered as a constant of exactly 0 (no year-specific values) is as uncertain as any other
        fw = P.framework
        cands = [pn for pn in parset.pars if pn in fw.pars.index and parset.pars[pn].ts and str(fw.pars.at[pn, "format"]).lower() in ("probability", "rate", "number") and not isinstance(fw.pars.at[pn, "function"], str)]
        if cands:
            par = parset.pars[cands[ch.choose("zero_constant.par", len(cands))]]
            pops_ = list(par.ts.keys())
            ts = par.ts[pops_[ch.choose("zero_constant.pop", len(pops_))]]
            ts.t, ts.vals, ts.assumption = [], [], 0.0
            bump("probe:zero_valued_constant_made_uncertain")
    if ch.flip("constant_and_time_values", 0.3):
        # rows that carry BOTH a constant and year-specific values are valid books; the values the model uses
        # (the year-specific ones) are as uncertain as any other
        rows = [ts for par in parset.all_pars() for ts in par.ts.values() if ts.has_time_data and ts.assumption is None]
        if progset is not None:
            rows += [ts for prog in progset.programs.values() for ts in (prog.spend_data, prog.unit_cost) if ts.has_time_data and ts.assumption is None]
        for j in range(min(len(rows), 1 + ch.choose("both.n", 3))):
            ts = rows[ch.choose(f"both.row[{j}]", len(rows))]
            ts.assumption = float(np.mean(ts.vals))
        if rows:
            bump("probe:rows_with_constant_and_time_values")
    npos = _set_sigmas(ch, P, parset, progset, mode)
    api = ch.pick("api", ["run_sampled_sims", "ensemble"])
    parallel = ch.flip("parallel", 0.75)
    n = 2 + min(ch.choose("n_samples", 31), ch.choose("n_samples'", 31))  # biased to small
    cpu = 1 + ch.choose("cpu_count", 16)
    workers = None
    if api == "run_sampled_sims" and parallel and ch.flip("explicit_workers", 0.7):
        workers = 1 + min(ch.choose("workers", 16), ch.choose("workers'", 16))
    prior = ch.pick("prior_rng", ["seeded", "advanced", "default"])
    prior_seed = ch.choose("prior_seed", 2**31 - 1)
    prior_adv = ch.choose("prior_advance", 1000)
    p_retry = ch.pick("retry_rate", [0.0, 0.0, 0.15, 0.4])
    site = f"{'Project.run_sampled_sims' if api == 'run_sampled_sims' else 'Ensemble.run_sims'}(parallel={parallel})"
    config = {"project": name, "programs": use_progs, "n_instr": n_instr, "result_names": result_names is not None, "sigma_mode": mode, "explicit_interactions": explicit_inter, "n_uncertain": npos, "api": api, "parallel": parallel, "n": n, "cpu_count": cpu, "workers": workers, "prior": prior, "retry_rate": p_retry}

    # ---- simulated world ---------------------------------------------------------------
    world = SimWorld(ch, seed=ch.choose("entropy_seed", 2**31 - 1), cpu_count=cpu)
    world.install()
    if prior == "seeded":
        np.random.seed(prior_seed)
    elif prior == "advanced":
        np.random.seed(prior_seed)
        np.random.mtrand._rand.randn(prior_adv)  # unrecorded advance of the parent's stream
    world.main.capture()

    samples = []  # records in order of *execution*
    orig_rss = aproj._run_sampled_sim

    @functools.wraps(orig_rss)
    def rss_wrapper(*a, **k):
        rec = {"sid": len(samples), "pid": world.current.pid, "task": world.current_task[0] if world.current_task else None, "attempts": [], "ndraws0": len(world.draw_log)}
        samples.append(rec)
        world.sample_stack.append(rec["sid"])
        try:
            return orig_rss(*a, **k)
        finally:
            world.sample_stack.pop()

    seams.patch(aproj, "_run_sampled_sim", rss_wrapper)

    aliased = []  # series of a sample that are the source's own objects
    orig_ps_sample = aparams.ParameterSet.sample
    orig_pg_sample = aprogs.ProgramSet.sample

    def ps_sample(self, *a, **k):
        new = orig_ps_sample(self, *a, **k)
        if new is not self:
            aliased.extend(_shared_series(self, new, "parset")[:3])
        if world.sample_stack:
            rec = samples[world.sample_stack[-1]]
            rec["attempts"].append({"parset": _perturbation(self, new, "parset"), "progset": []})
        return new

    def pg_sample(self, *a, **k):
        new = orig_pg_sample(self, *a, **k)
        if new is not self:
            aliased.extend(_shared_series(self, new, "progset")[:3])
        if world.sample_stack:
            rec = samples[world.sample_stack[-1]]
            if rec["attempts"]:
                rec["attempts"][-1]["progset"] = _perturbation(self, new, "progset")
        return new

    seams.patch(aparams.ParameterSet, "sample", ps_sample)
    seams.patch(aprogs.ProgramSet, "sample", pg_sample)

    # retry faults: a sampled attempt fails with BadInitialization (legal outcome of sampling)
    orig_process = amodel.Model.process
    fault_state = {"consec": 0}

    def process_wrapper(self):
        sid_ = world.sample_stack[-1] if world.sample_stack else None
        # injected rejections are capped per sample: together with a model's own rejection rate (50% for the
        # 'uncertainty' project) and several simulations per attempt, uncapped injection exhausts the library's
        # 50 attempts and the "failure" would be the simulator's doing
        if p_retry and world.sample_stack and fault_state["consec"] < 3 and fault_state.setdefault(("n", sid_), 0) < 5 and ch.flip("fault.badinit", p_retry):
            fault_state["consec"] += 1
            fault_state[("n", sid_)] += 1
            bump("fault:bad_initialization_injected")
            raise amodel.BadInitialization("injected by simulator")
        fault_state["consec"] = 0
        if os.environ.get("ATOMSIM_DEBUG_C17"):
            try:
                return orig_process(self)
            except amodel.BadInitialization:
                print("NATURAL-BADINIT pid", world.current.pid if hasattr(world.current, "pid") else "?", "stack", list(world.sample_stack), flush=True)
                raise
        return orig_process(self)

    seams.patch(amodel.Model, "process", process_wrapper)

    # ---- reference + snapshots ----------------------------------------------------------
    d_parset0 = digest_obj(parset)
    d_progset0 = digest_obj(progset) if progset is not None else None
    d_instr0 = digest_obj(instructions)
    baseline_digests = None
    if npos == 0:
        with world.main:
            pass
        base = [P.run_sim(parset, progset, ins) for ins in instructions] if use_progs else [P.run_sim(parset)]
        baseline_digests = [digest_result(r) for r in base]

    ensemble_used_before = api == "ensemble" and ch.flip("ensemble_used_before", 0.35)
    prior_result = None
    if ensemble_used_before:
        prior_result = [P.run_sim(parset, progset, ins, result_name=f"earlier {i_}") for i_, ins in enumerate(instructions)] if use_progs else [P.run_sim(parset, result_name="earlier")]
        bump("probe:ensemble_used_before")
    # ---- the call under test --------------------------------------------------------------
    results = None
    exc = None
    ens = None
    try:
        if api == "run_sampled_sims":
            results = P.run_sampled_sims(parset, progset=progset, progset_instructions=instructions, result_names=result_names, n_samples=n, parallel=parallel, num_workers=workers)
        else:
            outputs = [c for c in list(P.framework.comps.index)[:2]]
            ens = at.Ensemble(functools.partial(_mapping_function, outputs=outputs))
            if ensemble_used_before:
                # the Ensemble already holds samples of an earlier analysis: the call under test stores its own n draws
                ens.add(prior_result)
                ens.add(prior_result)
            ens.run_sims(P, parset, progset=progset, progset_instructions=instructions, result_names=result_names, n_samples=n, parallel=parallel)
            results = ens.samples
    except Exception as e:  # noqa
        exc = e
    finally:
        world.current = world.main

    oplog.append({"call": site, "config": config, "exception": None if exc is None else f"{type(exc).__name__}: {str(exc)[:200]}", "schedules": world.schedules, "samples_executed": len(samples)})

    # ---- oracles --------------------------------------------------------------------------
    if exc is not None:
        import traceback

        tb = traceback.extract_tb(exc.__traceback__)
        where = next((f"{fr.name}" for fr in reversed(tb) if "/atomica/" in fr.filename), "?")
        fname = next((fr.filename.split("/atomica/")[-1] for fr in reversed(tb) if "/atomica/" in fr.filename), "?")
        violations.append({"cls": "sampling_raises", "site": f"{fname}:{where}", "detail": {"exception": f"{type(exc).__name__}: {str(exc)[:300]}", "config": config}})
    else:
        # (2) count / shape
        if len(results) != n or any(r is None for r in results):
            violations.append({"cls": "wrong_result_count", "site": site, "detail": {"expected": n, "got": len(results), "config": config}})
        if api == "run_sampled_sims":
            for r in results:
                if r is not None and len(r) != n_instr:
                    violations.append({"cls": "wrong_result_shape", "site": site, "detail": {"expected_per_sample": n_instr, "got": len(r)}})
                    break
                if r is not None and use_progs:
                    # the j-th result of every sample belongs to the j-th instructions (pairing), under the requested name
                    got_starts = [x.model.program_instructions.start_year for x in r]
                    if got_starts != [ins.start_year for ins in instructions]:
                        bump("observed_beyond_property:results_paired_with_wrong_instructions")  # result bookkeeping is not part of C17's statement: counted, not a violation
                        break
                    if result_names is not None and [x.name for x in r] != result_names:
                        bump("observed_beyond_property:results_misnamed")  # naming is not part of C17's statement: counted, not a violation
                        break
        if len(samples) != n:
            violations.append({"cls": "wrong_sample_count", "site": site, "detail": {"expected": n, "executed": len(samples)}})

        # (1) independence
        finals = []
        for rec in samples:
            if rec["attempts"]:
                a = rec["attempts"][-1]
                finals.append((rec, tuple(a["parset"]) + tuple(a["progset"])))
                if len(rec["attempts"]) > 1:
                    bump("probe:sample_retried")
        draws = {}
        for pid, task, sid, vals in world.draw_log:
            if sid is not None:
                draws.setdefault(sid, []).extend(vals)
        compared = 0
        if npos > 0:
            dup = None
            seen = {}
            for rec, vec in finals:
                if len(vec) == 0 or not any(v != 0 for v in vec):
                    continue
                compared += 1
                if vec in seen and dup is None:
                    dup = (seen[vec], rec)
                seen.setdefault(vec, rec)
            if dup is not None:
                a, b = dup
                violations.append({"cls": "duplicate_perturbation", "site": site, "detail": {"samples": [a["sid"], b["sid"]], "pids": [a["pid"], b["pid"]], "tasks": [a["task"], b["task"]], "n_distinct": len(seen), "n_samples": compared, "config": config, "schedules": world.schedules}})
            else:
                # component-wise: independent draws never give two samples the same perturbation of the same quantity,
                # even when the rest of their perturbation differs (partially shared streams, generators that are not
                # reseeded for some of the inputs)
                part = None
                vecs = [(rec, vec) for rec, vec in finals if len(vec)]
                if vecs and all(len(v) == len(vecs[0][1]) for _, v in vecs):
                    for j in range(len(vecs[0][1])):
                        seen_j = {}
                        for rec, vec in vecs:
                            x = vec[j]
                            if x == 0:
                                continue
                            if x in seen_j and seen_j[x]["sid"] != rec["sid"]:
                                part = (seen_j[x], rec, j, x)
                                break
                            seen_j[x] = rec
                        if part:
                            break
                if part is None and len(vecs) >= 2:
                    # a quantity with positive uncertainty that is left exactly unperturbed in every sample is not being drawn at all
                    for j in range(len(vecs[0][1])):
                        if all(vec[j] == 0 for _, vec in vecs):
                            violations.append({"cls": "uncertain_quantity_never_perturbed", "site": site, "detail": {"component": j, "n_samples": len(vecs), "config": config}})
                            break
                if part is not None:
                    a, b, j, x = part
                    violations.append({"cls": "shared_perturbation_component", "site": site, "detail": {"samples": [a["sid"], b["sid"]], "pids": [a["pid"], b["pid"]], "component": j, "value": x, "config": config, "schedules": world.schedules}})
            if not violations or violations[-1]["cls"] not in ("duplicate_perturbation", "shared_perturbation_component"):
                # shared stream positions (shifted / partially shared streams)
                owner = {}
                shared = None
                for sid, vals in draws.items():
                    for v in set(vals):
                        if v in owner and owner[v] != sid:
                            shared = (owner[v], sid, v)
                            break
                        owner[v] = sid
                    if shared:
                        break
                if shared is not None:
                    violations.append({"cls": "shared_draws", "site": site, "detail": {"samples": [shared[0], shared[1]], "value": shared[2], "config": config, "schedules": world.schedules}})
            if any(len(r["attempts"]) > 1 for r in samples):
                bump("probe:retry_loop_hit")
        # (4) zero uncertainty: sampled == unsampled, bit for bit
        if npos == 0 and api == "run_sampled_sims" and baseline_digests is not None:
            for i, rs in enumerate(results):
                got = [digest_result(r) for r in rs]
                compared += 1
                if got != baseline_digests:
                    violations.append({"cls": "zero_uncertainty_differs", "site": site, "detail": {"sample": i, "config": config}})
                    break
            bump("probe:zero_uncertainty_compared")
        if compared >= 2 or (npos == 0 and compared >= 1):
            nontrivial = True
        else:
            nontrivial = False

    # (3) sources untouched
    if digest_obj(parset) != d_parset0:
        violations.append({"cls": "source_parset_modified", "site": site, "detail": {"config": config}})
    if aliased:
        # a sample that holds the source's own mutable series is not a copy: editing the sample edits the source and
        # every other sample of the call
        violations.append({"cls": "sample_shares_objects_with_source", "site": site, "detail": {"series": aliased[:6], "config": config}})
    if progset is not None and digest_obj(progset) != d_progset0:
        violations.append({"cls": "source_progset_modified", "site": site, "detail": {"config": config}})
    if digest_obj(instructions) != d_instr0:
        violations.append({"cls": "source_instructions_modified", "site": site, "detail": {"config": config}})

    # ---- bookkeeping ----------------------------------------------------------------------
    bump("evaluations")
    bump("samples_executed", len(samples))
    bump(f"api:{api}:{'parallel' if parallel else 'serial'}")
    bump(f"sigma_mode:{mode}")
    if explicit_inter:
        bump("probe:explicit_interaction_outcomes")
    if world.schedules:
        bump("probe:pool_used")
        used = {w for s in world.schedules for _, w in s["assignment"]}
        if len(used) > 1:
            bump("probe:multiple_workers_took_tasks")
        if any(s["late"] for s in world.schedules):
            bump("fault:late_worker")
    for k, v in world.entropy_calls.items():
        bump(f"probe:entropy:{k}", v)
    model_years = len(samples) * n_instr * (P.settings.sim_end - P.settings.sim_start)
    bump("model_years_x1000", int(1000 * model_years))
    sig = hashlib.sha256(repr((api, parallel, mode, n, workers, cpu, use_progs, schedule_signature(world.schedules))).encode()).hexdigest()[:16]
    world.close()
    return {
        "violations": violations,
        "stats": stats,
        "signature": sig,
        "nontrivial": bool(exc is None and nontrivial),
        "sample": {"config": config, "schedules": world.schedules[:1], "violations": [v["cls"] for v in violations]},
        "oplog": oplog,
        "trace": hashlib.sha256(repr([(r["sid"], r["pid"], r["task"], r["attempts"]) for r in samples]).encode()).hexdigest(),
    }
