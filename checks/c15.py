"""
C15 -- optimization and calibration never make things worse and never leak side effects.

Real calibrate / optimize / reconcile run under a virtual clock (per-evaluation cost, jumps, stalls),
a seeded optimiser path (ASD randseed, or simulated entropy where the API has no seed) and an
exception injected at the k-th simulation for EVERY k up to the number of simulations of the
fault-free reference execution of the same problem.

Oracles: deep digests of the caller's parset / progset / instructions / project settings / data on
every exit path; evaluation history captured at the objective seam and checked against a reference
re-implementation of the documented objective evaluated on the very model each evaluation produced;
independent re-simulation of the returned point (no worse than the start, hard targets, bounds).
"""

import hashlib
import os
import math

import numpy as np

ID = "C15"
LEVEL = "fault_enumeration"
VERSION = 1
RULE = (
    "one problem = corpus project x seeded (kind: calibrate / optimize / reconcile; adjustables, bounds, measurables over single years or ranges with or without population selection, "
    "total-spend constraint, step size dt, iteration budget, simulated time budget, clock faults, optimiser seed, one Optimization object used before from another starting allocation); the problem is executed fault-free once and then once per crash point k=1..N "
    "(exception at the k-th simulation, kinds InjectedFault / BadInitialization / MemoryError / KeyboardInterrupt); evaluations = executions; distinct = distinct (kind, project, problem hash, exit reason or crash ordinal+kind); "
    "non-trivial = the optimiser took at least 2 evaluations (or the crash hit an evaluation) and all oracles were evaluated"
)
ASSUMPTIONS = [
    "the wall clock seen by sciris.asd and OS entropy for unseeded generators are stubs (SimClock / simulated entropy); sciris.asd itself is real third-party code",
    "the reference objective is re-implemented from the docstrings of Measurable / calibrate (sum over requested outputs, years t0<=t<t1 or t==t0, populations; flows annualised)",
    "re-evaluation slack 1e-9 relative for 'no worse than the start'",
]
COMPONENTS = {"real": ["atomica.calibration / optimization / reconciliation / project / model", "sciris.asd", "scipy SLSQP (constrain_sum_bounded)", "pickle of the model per evaluation"], "stub": ["time module seen by sciris.sc_asd -> SimClock", "np.random.default_rng(None) -> simulated entropy"]}

_CORPUS = None
CAL_PROJECTS = ["udt", "usdt", "tb_simple", "hiv", "hypertension", "udt_dyn", "tb_simple_dyn", "hypertension_dyn", "hiv_dyn", "diabetes", "timed_transfer", "uncertainty"]
OPT_PROJECTS = ["udt", "usdt", "tb_simple", "hiv", "hypertension", "udt_dyn", "tb_simple_dyn", "hypertension_dyn", "hiv_dyn", "diabetes", "uncertainty", "cervicalcancer"]
DTS = [None, None, 0.5, 1.0, 0.2, 0.3, 1.0 / 12, 0.1]


class InjectedFault(Exception):
    pass


def budget(tier):
    if tier == "thorough":
        return {"runs": 1500, "wall": 1500, "chunk": 1, "minimise_s": 150}
    return {"runs": 400, "wall": 300, "chunk": 1, "minimise_s": 50}


def prepare(tier):
    global _CORPUS
    from atomsim import corpus

    _CORPUS = corpus.load()


# ---------------------------------------------------------------------------------------------
# reference objective implementations (written from the documentation, not from the code)
# ---------------------------------------------------------------------------------------------


def ref_calibration_objective(result, project, output_quantities):
    total = 0.0
    for var, pop, weight, metric in output_quantities:
        ts = project.data.get_ts(var, pop)
        if ts is None or not ts.has_time_data:
            continue
        t_data = np.array(ts.t, dtype=float)
        y = np.array(ts.vals, dtype=float)
        if pop.lower() == "total":
            # documented: the model output is aggregated over all populations (sum for number quantities - the only
            # kind the workload poses with a 'Total' row)
            vs = [p_.get_variable(var)[0] for p_ in result.model.pops]
            vt, vv = vs[0].t, np.sum([np.asarray(v_.vals, dtype=float) for v_ in vs], axis=0)
        else:
            v = result.model.get_pop(pop).get_variable(var)[0]
            vt, vv = v.t, v.vals
        y2 = np.interp(t_data, vt, vv, left=np.nan, right=np.nan)
        ok = ~np.isnan(y) & ~np.isnan(y2)
        y, y2 = y[ok], y2[ok]
        if metric == "fractional":
            s = float(np.sum(np.abs(y2 - y) / np.clip(y, 1, None)))
        elif metric == "meansquare":
            s = float(np.sqrt(np.mean((y2 - y) ** 2))) if len(y) else float("nan")
        elif metric == "wape":
            s = float(np.sum(np.abs(y2 - y) / (np.mean(y) + 1e-6))) if len(y) else 0.0  # a sum over no data points
        else:
            raise ValueError(metric)
        total += weight * s
    return total


def scale_measured_data(P, spec):
    """The databook values of the measured quantities scaled by spec['data_scale']: data the current calibration does not fit (so the optimiser has somewhere to go)."""
    f = spec.get("data_scale", 1.0)
    if f == 1.0:
        return
    done = set()
    for var, pop, w, metric in [tuple(m) for m in spec.get("measurables", [])]:
        if var not in P.data.tdve:
            continue
        for pn, ts in P.data.tdve[var].ts.items():
            if (var, pn) in done or (pop not in (None, "Total") and pn != pop):
                continue
            done.add((var, pn))
            ts.vals = [v * f for v in ts.vals]


def add_total_rows(at, P, spec):
    """Databook rows for the aggregate pseudo-population 'Total' (documented for calibration) for every measurable that asks for it."""
    for var, pop, w, metric in [tuple(m) for m in spec.get("measurables", [])]:
        if pop != "Total" or var not in P.data.tdve or "Total" in P.data.tdve[var].ts:
            continue
        tdve = P.data.tdve[var]
        years = sorted({float(t_) for ts in tdve.ts.values() for t_ in ts.t})
        tot = at.TimeSeries(units=list(tdve.ts.values())[0].units)
        for y_ in years:
            tot.insert(y_, 1.1 * float(sum(ts.interpolate(np.array([y_]))[0] for ts in tdve.ts.values())))
        tdve.ts["Total"] = tot


def ref_measurable_value(model, name, t, pop_names):
    from atomica.model import Link
    from atomica.system import NotFoundError

    t = np.atleast_1d(np.array(t, dtype=float))
    if len(t) == 1:
        filt = model.t == t[0]
    else:
        filt = (model.t >= t[0]) & (model.t < t[1])
    if model.progset is not None and name in model.progset.programs:
        alloc = model.progset.get_alloc(model.t, model.program_instructions)
        return float(np.sum(alloc[name][filt]))
    val = 0.0
    matched = False
    for pop in model.pops:
        if pop_names and pop.name not in pop_names:
            continue
        try:
            vars_ = pop.get_variable(name)
        except NotFoundError:
            if pop_names:
                raise
            continue
        matched = True
        for v in vars_:
            if isinstance(v, Link):
                val += float(np.sum(v.vals[filt] / v.dt))
            else:
                val += float(np.sum(v.vals[filt]))
    if not matched:
        raise KeyError(name)
    return val


def ref_cascade_stage_value(model, cascade_name, t, stage):
    """Documented MaximizeCascadeStage: people in the given stage of the cascade (all populations), summed over the years t."""
    fw = model.framework
    df = fw.cascades[cascade_name]
    stages = [[x.strip() for x in row.iloc[1].split(",")] for _, row in df.iterrows()]
    includes = stages[stage]
    total = np.zeros(model.t.shape)
    ptype = None
    for inc in includes:
        for cn in fw.get_charac_includes([inc]):
            ptype = fw.comps.at[cn, "population type"]
            for pop in model.pops:
                if pop.type == ptype:
                    total = total + pop.get_comp(cn).vals
    tt = np.atleast_1d(np.array(t, dtype=float))
    return float(np.sum(np.interp(tt, model.t, total, left=np.nan, right=np.nan)))


def ref_optimization_objective(model, mspecs):
    total = 0.0
    for m in mspecs:
        if m["type"] == "cascade_stage":
            total += -ref_cascade_stage_value(model, m["name"], m["t"], m["stage"])
            continue
        val = ref_measurable_value(model, m["name"], m["t"], m.get("pops"))
        if m["type"] == "min":
            total += val
        elif m["type"] == "max":
            total += -val
        elif m["type"] == "atmost":
            total += math.inf if val > m["threshold"] else 0.0
        elif m["type"] == "atleast":
            total += math.inf if val < m["threshold"] else 0.0
        elif m["type"] == "increaseby":
            total += math.inf if (val / m["baseline"]) < (1 + m["amount"]) else 0.0
        elif m["type"] == "decreaseby":
            total += math.inf if (val / m["baseline"]) > (1 - m["amount"]) else 0.0
    return total


def make_instructions(at, progset, spec):
    """Starting instructions of an optimization problem: the program book's spending at the start year, optionally with a trend."""
    instr = at.ProgramInstructions(start_year=spec["start"], alloc=progset)
    trend = spec.get("alloc_trend", 1.0)
    if trend != 1.0:
        for ts in instr.alloc.values():
            v0 = ts.vals[0]
            ts.insert(spec["start"] + 2, v0 * trend)
    if spec.get("unfunded"):
        ts = instr.alloc[spec["unfunded"]]
        ts.vals = [0.0 for _ in ts.vals]
    return instr


def close(a, b, rel=1e-9):
    if a == b:
        return True
    if math.isnan(a) and math.isnan(b):
        return True
    if math.isinf(a) or math.isinf(b):
        return False
    return abs(a - b) <= rel * max(1.0, abs(a), abs(b))


# ---------------------------------------------------------------------------------------------
# problem generation (specs are plain data; instantiated afresh for every execution)
# ---------------------------------------------------------------------------------------------


def _clock_spec(ch):
    ncost = 8
    hi = [0.05, 1.0, 100.0][ch.choose("clock.cost_scale", 3)]  # fast / medium / slow evaluations: some runs never time out, some after one step
    costs = [ch.loguniform(f"clock.cost[{i}]", 1e-3, hi) for i in range(ncost)]
    faults = {}
    if ch.flip("clock.fault", 0.3):
        kind = ch.pick("clock.fault_kind", ["jump_forward", "jump_backward", "stall"])
        at_eval = 1 + ch.choose("clock.fault_at", 10)
        amount = {"jump_forward": 1e4, "jump_backward": 1e4, "stall": 5}[kind]
        faults[at_eval] = (kind, amount)
    return {"costs": costs, "faults": faults}


def gen_calibration(ch):
    from atomsim import corpus as _c

    names = [n for n in CAL_PROJECTS if n in _CORPUS] + _c.generated_names()
    name = ch.pick("project", names)
    P = _CORPUS[name].project()
    parset = P.parsets[0]
    fw = P.framework
    pops = list(P.data.pops.keys())
    # adjustable candidates
    cand = []
    for par_name, par in parset.pars.items():
        if not par.ts:
            continue
        if all(ts.has_data for ts in par.ts.values()):
            cand.append(par_name)
    transfers = []
    for tname, d in parset.transfers.items():
        for src, par in d.items():
            for dst in par.ts:
                transfers.append((f"{tname}_from_{src}", dst))
    n_adj = 1 + ch.choose("n_adjustables", 3)
    adjustables = []
    for i in range(n_adj):
        if transfers and ch.flip(f"adj[{i}].transfer", 0.2):
            tn, dst = transfers[ch.choose(f"adj[{i}].transfer_idx", len(transfers))]
            pop = dst
            par_name = tn
        else:
            par_name = cand[ch.choose(f"adj[{i}].par", len(cand))]
            ppops = list(parset.pars[par_name].ts.keys())
            mode = ch.pick(f"adj[{i}].popmode", ["pop", "none", "all"])
            pop = {"pop": ppops[ch.choose(f"adj[{i}].pop", len(ppops))], "none": None, "all": "all"}[mode]
        # a lower limit of 0.0 is Project.calibrate's documented default, so it gets half of the weight
        lo, hi = [(0.5, 1.5), (0.0, 2.0), (0.1, 10.0), (0.0, 10.0), (0.9, 1.1), (0.0, 1.0)][ch.choose(f"adj[{i}].bounds", 6)]
        # Two entries addressing the same scale factor (the same (par, pop), or a population-specific
        # entry next to a pop=None entry that expands to every population) carry contradictory bounds
        # for one quantity: the property says nothing about which wins, so such problems are not posed.
        clash = any(a[0] == par_name and (a[1] == pop or (a[1] != "all" and pop != "all" and (a[1] is None or pop is None))) for a in adjustables)
        if not clash:
            adjustables.append((par_name, pop, lo, hi))
    # measurable candidates: outputs with time data
    mc = []
    for var in list(fw.comps.index) + list(fw.characs.index) + list(fw.pars.index):
        for pop in pops:
            ts = P.data.get_ts(var, pop)
            if ts is not None and ts.has_time_data:
                try:
                    P.framework.get_variable(var)
                except Exception:
                    continue
                mc.append((var, pop))
    if not mc:
        return None
    n_meas = 1 + ch.choose("n_measurables", 3)
    measurables = []
    for i in range(n_meas):
        var, pop = mc[ch.choose(f"meas[{i}]", len(mc))]
        if ch.flip(f"meas[{i}].allpops", 0.3):
            pop = None
        elif len(pops) > 1 and var in fw.comps.index and ch.flip(f"meas[{i}].total_row", 0.25):
            pop = "Total"  # the documented aggregate row (number quantity: compared with the sum over populations)
        weight = [1.0, 0.5, 2.0][ch.choose(f"meas[{i}].weight", 3)]
        metric = ["fractional", "wape", "meansquare"][ch.choose(f"meas[{i}].metric", 3)]
        measurables.append((var, pop, weight, metric))
    spec = {
        "kind": "calibrate",
        "project": name,
        "dt": DTS[ch.choose("dt", len(DTS))],
        "end_offset": [0, 0, 1, 3][ch.choose("end_offset", 4)],
        # simulation starting after the first data year: earlier data points are outside the simulated range
        "start_offset": [0, 0, 1, 2][ch.choose("start_offset", 4)],
        # measured data the current calibration does not fit (library books are often generated from the model itself)
        "data_scale": [1.0, 1.3, 0.7, 1.0][ch.choose("data_scale", 4)],
        "adjustables": adjustables,
        "measurables": measurables,
        "maxiters": 1 + ch.choose("maxiters", 14),
        "max_time": [60.0, 3.0, 0.5, 0.01][ch.choose("max_time", 4)],
        "randseed": ch.choose("randseed", 2**31 - 1),
        "clock": _clock_spec(ch),
        "entry": ch.pick("entry_point", ["Project.calibrate", "calibration.calibrate"]),
        # documented pass-through to the optimizer ("e.g. stepsize"): large first steps make the limits bind at once
        "stepsize": [None, None, 0.5, 1.0, 2.5][ch.choose("stepsize", 5)],
        # where inside its limits each adjusted scale factor starts (the caller's current calibration)
        "start_factors": ch.pick("start_factors", ["as_is", "near_lower", "as_is", "at_lower", "at_upper", "near_lower", "near_upper"]),
    }
    return spec


def gen_optimization(ch):
    from atomsim import corpus as _c

    names = [n for n in OPT_PROJECTS if n in _CORPUS and _CORPUS[n].meta["has_progset"]] + [n for n in _c.generated_names() if _CORPUS[n].meta["has_progset"]]
    name = ch.pick("project", names)
    P = _CORPUS[name].project()
    progset = P.progsets[0]
    fw = P.framework
    pops = list(P.data.pops.keys())
    progs = list(progset.programs.keys())
    start = float(P.settings.sim_start) + 1 + ch.choose("instr_start", 3)
    n_adj = 2 + ch.choose("n_programs", max(1, min(3, len(progs) - 1)))
    chosen = ch.shuffle("programs", progs)[:n_adj]
    limit = ch.pick("limit_type", ["abs", "rel"])
    adj_years = [start] if not ch.flip("two_years", 0.3) else [start, start + 2]
    alloc_trend = [1.0, 1.4, 0.6][ch.choose("alloc_trend", 3)] if len(adj_years) > 1 else 1.0  # baseline budget differs between the adjustment years
    adjustments = []
    for i, pn in enumerate(chosen):
        if limit == "abs":
            lo, hi = 0.0, [None, 1e9][ch.choose(f"adj[{i}].hi", 2)]
        else:
            lo, hi = [(0.5, 2.0), (0.0, 3.0), (0.8, 1.25)][ch.choose(f"adj[{i}].rel", 3)]
        adjustments.append({"prog": pn, "t": adj_years, "limit": limit, "lower": lo, "upper": hi})
    # measurables
    outputs = [c for c in fw.comps.index] + [c for c in fw.characs.index]
    flows = [f"{p}:flow" for p in fw.pars.index if fw.transitions.get(p)]
    end = float(P.settings.sim_end)
    n_meas = 1 + ch.choose("n_measurables", 2)
    measurables = []
    for i in range(n_meas):
        if flows and ch.flip(f"meas[{i}].flow", 0.3):
            nm = flows[ch.choose(f"meas[{i}].flowidx", len(flows))]
        else:
            nm = outputs[ch.choose(f"meas[{i}].out", len(outputs))]
        if ch.flip(f"meas[{i}].range", 0.5):
            t0 = start + ch.choose(f"meas[{i}].t0", 2)
            t = [t0, [t0 + 1, t0 + 2.5, np.inf][ch.choose(f"meas[{i}].t1", 3)]]
        else:
            t = [min(end, start + 1 + ch.choose(f"meas[{i}].t", 3))]
        mtype = ["min", "max", "atmost", "atleast", "increaseby", "decreaseby"][ch.choose(f"meas[{i}].type", 6)] if i > 0 else ["min", "max"][ch.choose(f"meas[{i}].type", 2)]
        sel = None
        if len(pops) >= 1 and ch.flip(f"meas[{i}].popsel", 0.35):
            k = 1 + ch.choose(f"meas[{i}].npops", len(pops))
            sel = ch.shuffle(f"meas[{i}].pops", pops)[:k]
        measurables.append({"type": mtype, "name": nm, "t": t, "pops": sel, "threshold_margin": [0.2, 0.5, 0.01][ch.choose(f"meas[{i}].margin", 3)]})
    constraint = None
    if ch.flip("total_spend_constraint", 0.6):
        constraint = {"budget_factor": [1.0, 1.0, 0.8, 1.3][ch.choose("budget_factor", 4)], "explicit_t": ch.flip("constraint_explicit_t", 0.3)}
    package = None
    if len(progs) >= 2 and ch.flip("spending_package", 0.3):
        # a SpendingPackageAdjustment over the chosen programs instead of independent adjustments
        k = 2 + ch.choose("package.n", min(2, len(chosen) - 1))
        mode = ch.pick("package.mode", ["free_props_fixed_total", "free_props_free_total", "fixed_props_free_total"])
        package = {"progs": chosen[:k], "t": start, "mode": mode, "min_prop": [None, 0.05][ch.choose("package.min_prop", 2)], "max_prop": [None, 0.95][ch.choose("package.max_prop", 2)], "total_range": [0.8, 1.25]}
        if constraint is not None and len(chosen) >= 3 and ch.flip("package.with_total_spend_constraint", 0.8):
            k = min(k, len(chosen) - 1)
            package["progs"] = chosen[:k]
            if package["mode"] == "free_props_fixed_total":
                package["mode"] = "free_props_free_total"
            # the package (adjustable total) next to plain adjustments of the other programs, all under one
            # total-spend constraint: single adjustment year so that every adjusted program is constrained in it
            package["with_plain"] = True
            for a in adjustments:
                a["t"] = [start]
            alloc_trend = 1.0
        else:
            constraint = None
    paired = None
    if len(chosen) >= 2 and package is None and ch.flip("paired_linear_adjustment", 0.12):
        # the library's parametric adjustment: one ramp moving money between two programs, total conserved
        paired = {"progs": chosen[:2], "t": [start, start + 1 + ch.choose("paired.span", 3)]}
        constraint = None
    if fw.cascades and ch.flip("cascade_measurable", 0.2):
        cname = list(fw.cascades.keys())[ch.choose("cascade.which", len(fw.cascades))]
        measurables[0] = {"type": "cascade_stage", "name": cname, "t": [min(end, start + 1 + ch.choose("cascade.t", 3))], "pops": None, "stage": [-1, 0, 1][ch.choose("cascade.stage", 3)], "threshold_margin": 0.2}
    spec = {
        "kind": "optimize",
        "project": name,
        "dt": [None, None, 0.5, 1.0][ch.choose("dt", 4)],
        "start": start,
        "alloc_trend": alloc_trend,
        "adjustments": adjustments,
        "measurables": measurables,
        "constraint": constraint,
        "package": package,
        "paired": paired,
        "maxiters": 1 + ch.choose("maxiters", 12),
        "max_time": [60.0, 3.0, 0.5, 0.01][ch.choose("max_time", 4)],
        "randseed": ch.choose("randseed", 2**31 - 1),
        "clock": _clock_spec(ch),
    }
    if package is None and paired is None and ch.flip("optimization_object_reused", 0.3):
        spec["reused"] = [1.7, 0.5][ch.choose("reused.scale", 2)]
    if package is None and paired is None and limit == "abs" and len(adjustments) >= 2 and ch.flip("frozen_unfunded_program", 0.35):
        # a program that starts unfunded and must stay so: absolute bounds [0, 0]
        adjustments[-1]["lower"], adjustments[-1]["upper"] = 0.0, 0.0
        spec["unfunded"] = adjustments[-1]["prog"]
    return spec


def gen_reconcile(ch):
    from atomsim import corpus as _c

    names = [n for n in OPT_PROJECTS if n in _CORPUS and _CORPUS[n].meta["has_progset"]] + [n for n in _c.generated_names() if _CORPUS[n].meta["has_progset"]]
    name = ch.pick("project", names)
    P = _CORPUS[name].project()
    spec = {
        "kind": "reconcile",
        "project": name,
        "dt": [None, None, 0.5][ch.choose("dt", 3)],
        "year": float(P.settings.sim_start) + 1 + ch.choose("year", 3),
        "unit_cost_bounds": [0.0, 0.2, 0.5][ch.choose("unit_cost_bounds", 3)],
        "baseline_bounds": [0.0, 0.2][ch.choose("baseline_bounds", 2)],
        "outcome_bounds": [0.0, 0.2, 0.5][ch.choose("outcome_bounds", 3)],
        "capacity_bounds": [0.0, 0.2][ch.choose("capacity_bounds", 2)],
        "max_time": [10.0, 1.0, 0.05][ch.choose("max_time", 3)],
        "clock": _clock_spec(ch),
        "entropy": ch.choose("entropy", 2**31 - 1),
        "eval_range": ch.flip("eval_range", 0.3),
        "refine": ch.flip("refine_earlier_output", 0.3),
    }
    if not (spec["unit_cost_bounds"] or spec["baseline_bounds"] or spec["outcome_bounds"] or spec["capacity_bounds"]):
        spec["unit_cost_bounds"] = 0.2
    return spec


# ---------------------------------------------------------------------------------------------
# execution of one problem instance (fault-free or with one injected failure)
# ---------------------------------------------------------------------------------------------


def execute(spec, fault, bump):
    """
    fault: None or (k, kind) -> the k-th call of Model.process raises.
    Returns dict(exit, n_process, n_evals, violations, history, clock)
    """
    import atomica as at
    import atomica.calibration as acal
    import atomica.model as amodel
    import atomica.optimization as aopt
    import atomica.project as aproj
    import atomica.reconciliation as arec
    import sciris as sc
    import sciris.sc_asd as sc_asd
    from atomsim import seams
    from atomsim.digest import flatten, diff_tokens
    from atomsim.simclock import SimClock

    V = []

    def violate(cls, site, detail):
        if not any(v["cls"] == cls and v["site"] == site for v in V):
            detail = dict(detail)
            detail["spec"] = spec
            detail["fault"] = fault
            V.append({"cls": cls, "site": site, "detail": detail})

    def observe(cls, site, detail):
        # Behaviour the anchored mechanisms promise (ASD keeps the best point, the iteration budget ends the search,
        # an injected failure surfaces as itself) but the property's statement does not: counted in the evidence,
        # never a violation - a tree that e.g. re-evaluates its best point once more still satisfies C15.
        bump(f"observed_beyond_property:{cls}")

    kind = spec["kind"]
    P = _CORPUS[spec["project"]].project()
    if kind == "calibrate":
        import atomica as _at_

        scale_measured_data(P, spec)
        add_total_rows(_at_, P, spec)
        if fault is None and spec.get("data_scale", 1.0) != 1.0:
            bump("probe:calibration_data_scaled")
        if fault is None and any(m[1] == "Total" for m in spec["measurables"]):
            bump("probe:calibration_against_total_row")
    if spec.get("dt"):
        P.settings.update_time_vector(dt=spec["dt"])
    if spec.get("end_offset"):
        P.settings.update_time_vector(end=P.settings.sim_end + spec["end_offset"])
    if spec.get("start_offset"):
        P.settings.update_time_vector(start=P.settings.sim_start + spec["start_offset"])
    parset = P.parsets[0]
    progset = P.progsets[0] if len(P.progsets) else None
    if kind == "calibrate" and spec.get("start_factors", "as_is") != "as_is":
        for par_name, pop, lo, hi in [tuple(a) for a in spec["adjustables"]]:
            v = {"at_lower": lo, "at_upper": hi, "near_lower": lo + 0.02 * (hi - lo), "near_upper": hi - 0.02 * (hi - lo)}[spec["start_factors"]]
            if par_name in parset.pars:
                par = parset.pars[par_name]
                if pop == "all":
                    par.meta_y_factor = v
                else:
                    for pn in [pop] if pop is not None else list(par.y_factor.keys()):
                        par.y_factor[pn] = v
            else:
                tn, src = par_name.split("_from_")
                parset.transfers[tn][src].y_factor[pop] = v
    clock = SimClock(spec["clock"]["costs"], {int(k): tuple(v) for k, v in spec["clock"]["faults"].items()})
    state = {"n_process": 0, "history": [], "last_result": None, "last_model": None, "fault_fired": False, "bad_objective": None}

    with seams.patched():
        seams.patch(sc_asd, "time", clock)
        # unseeded generators draw from simulated entropy
        orig_default_rng = np.random.default_rng
        ent = {"n": 0}

        def sim_default_rng(seed=None):
            if seed is None:
                ent["n"] += 1
                seed = [spec.get("entropy", 12345), ent["n"]]
            return orig_default_rng(seed)

        seams.patch(np.random, "default_rng", sim_default_rng)

        orig_process = amodel.Model.process

        def process_wrapper(self):
            if not state.get("armed", True):
                return orig_process(self)
            state["n_process"] += 1
            if fault is not None and state["n_process"] == fault[0]:
                state["fault_fired"] = True
                fk = fault[1]
                if fk == "BadInitialization":
                    raise amodel.BadInitialization("injected by simulator")
                if fk == "MemoryError":
                    raise MemoryError("injected by simulator")
                if fk == "KeyboardInterrupt":
                    raise KeyboardInterrupt()
                raise InjectedFault(f"injected at simulation {fault[0]}")
            out = orig_process(self)
            state["last_model"] = self
            return out

        seams.patch(amodel.Model, "process", process_wrapper)

        # legal mid-procedure failures other than a failing simulation
        state["n_constrain"] = 0
        state["n_loads"] = 0
        orig_csb = aopt.constrain_sum_bounded

        def csb_wrapper(*a, **k):
            if not state.get("armed", True):
                return orig_csb(*a, **k)
            state["n_constrain"] += 1
            if fault is not None and fault[1] == "FailedConstraint" and state["n_constrain"] == fault[0]:
                state["fault_fired"] = True
                raise aopt.FailedConstraint()
            return orig_csb(*a, **k)

        seams.patch(aopt, "constrain_sum_bounded", csb_wrapper)

        class _PickleProxy:
            """pickle module as seen by atomica.optimization: the j-th loads() fails"""

            def __getattr__(self, name):
                import pickle as _p

                return getattr(_p, name)

            def loads(self, b, *a, **k):
                import pickle as _p

                if not state.get("armed", True):
                    return _p.loads(b, *a, **k)
                state["n_loads"] += 1
                if fault is not None and fault[1] == "UnpicklingError" and state["n_loads"] == fault[0]:
                    state["fault_fired"] = True
                    raise _p.UnpicklingError("injected by simulator")
                return _p.loads(b, *a, **k)

        seams.patch(aopt, "pickle", _PickleProxy())

        # ---------------- snapshots of everything the caller owns ----------------------------
        def snapshot(objs):
            return {k: flatten(v) for k, v in objs.items() if v is not None}

        result = None
        exc = None
        try:
            if kind == "calibrate":
                adjustables = [tuple(a) for a in spec["adjustables"]]
                measurables = [tuple(m) for m in spec["measurables"]]
                caller = {"parset": parset, "settings": P.settings, "data": P.data, "framework": P.framework, "project_parsets": P.parsets, "tvec": P.settings.tvec}
                snap = snapshot(caller)
                oq_expanded = []
                for var, pop, w, metric in measurables:
                    for p in [pop] if pop is not None else list(P.data.pops.keys()):
                        oq_expanded.append((var, p, w, metric))
                orig_obj = acal._calculate_objective
                orig_run_sim = aproj.Project.run_sim

                def run_sim_wrapper(self, *a, **k):
                    r = orig_run_sim(self, *a, **k)
                    state["last_result"] = r
                    return r

                seams.patch(aproj.Project, "run_sim", run_sim_wrapper)

                def obj_wrapper(y_factors, pars_to_adjust, output_quantities, parset, project):
                    state["last_result"] = None
                    try:
                        val = orig_obj(y_factors, pars_to_adjust, output_quantities, parset, project)
                    finally:
                        clock.on_evaluation()
                    x = [float(v) for v in np.atleast_1d(y_factors)]
                    refv = None
                    if state["last_result"] is not None:
                        try:
                            refv = ref_calibration_objective(state["last_result"], project, oq_expanded)
                        except Exception as e:  # reference cannot be evaluated: harness problem, surface it
                            raise RuntimeError(f"reference objective failed: {type(e).__name__}: {e}")
                        if not close(float(val), refv) and state["bad_objective"] is None:
                            state["bad_objective"] = {"x": x, "seen": float(val), "reference": refv}
                    state["history"].append((x, float(val)))
                    return val

                seams.patch(acal, "_calculate_objective", obj_wrapper)
                kwargs = {"maxiters": spec["maxiters"], "randseed": spec["randseed"]}
                if spec.get("stepsize"):
                    kwargs["stepsize"] = spec["stepsize"]
                if spec["entry"] == "Project.calibrate":
                    # the documented short forms, mixed with full tuples: an adjustable for all populations (pop None) is
                    # given as a plain name when its limits are the call's default limits; likewise a measurable for
                    # all populations whose weight / metric are the call's defaults
                    kw2 = {}
                    first_none = next((a for a in adjustables if a[1] is None), None)
                    adj_arg = list(adjustables)
                    if first_none is not None:
                        kw2["default_min_scale"], kw2["default_max_scale"] = first_none[2], first_none[3]
                        adj_arg = [a[0] if (a[1] is None and (a[2], a[3]) == (first_none[2], first_none[3])) else a for a in adjustables]
                        if fault is None:
                            bump("probe:adjustables_given_as_names")
                    first_mnone = next((m for m in measurables if m[1] is None), None)
                    meas_arg = list(measurables)
                    if first_mnone is not None:
                        kw2["default_weight"], kw2["default_metric"] = first_mnone[2], first_mnone[3]
                        meas_arg = [m[0] if (m[1] is None and (m[2], m[3]) == (first_mnone[2], first_mnone[3])) else m for m in measurables]
                        if fault is None:
                            bump("probe:measurables_given_as_names")
                    result = P.calibrate(parset=parset, adjustables=adj_arg, measurables=meas_arg, max_time=spec["max_time"], **kw2, **kwargs)
                else:
                    adj = [(a[0], a[1], a[2], a[3]) for a in adjustables]
                    result = acal.calibrate(P, parset, adj, list(measurables), max_time=spec["max_time"], **kwargs)

            elif kind == "optimize":
                instructions = make_instructions(at, progset, spec)
                adjustments = [at.SpendingAdjustment(a["prog"], a["t"], a["limit"], a["lower"], a["upper"]) for a in spec["adjustments"]]
                pk = spec.get("package")
                if pk:
                    init = np.array([float(progset.get_alloc(pk["t"], instructions)[pn][0]) for pn in pk["progs"]])
                    tot = float(init.sum())
                    kwp = {}
                    if pk["min_prop"] is not None:
                        kwp["min_props"] = [min(pk["min_prop"], float(x) / tot) if tot > 0 else 0.0 for x in init]
                    if pk["max_prop"] is not None:
                        kwp["max_props"] = [max(pk["max_prop"], float(x) / tot) if tot > 0 else 1.0 for x in init]
                    if pk["mode"] in ("free_props_free_total", "fixed_props_free_total"):
                        kwp["min_total_spend"] = tot * pk["total_range"][0]
                        kwp["max_total_spend"] = tot * pk["total_range"][1]
                    if pk["mode"] == "fixed_props_free_total":
                        kwp["fix_props"] = True
                    adjustments = [at.SpendingPackageAdjustment("package", pk["t"], list(pk["progs"]), init, **kwp)]
                    if pk.get("with_plain"):
                        adjustments += [at.SpendingAdjustment(a["prog"], a["t"], a["limit"], a["lower"], a["upper"]) for a in spec["adjustments"] if a["prog"] not in pk["progs"]]
                        if fault is None:
                            bump("probe:package_next_to_plain_adjustments_under_total_constraint")
                    if fault is None:
                        bump(f"probe:spending_package:{pk['mode']}")
                    pk["_init"] = init.tolist()
                    pk["_kw"] = {k2: (list(map(float, v2)) if isinstance(v2, (list, np.ndarray)) else v2) for k2, v2 in kwp.items()}
                if spec.get("paired"):
                    adjustments = [at.PairedLinearSpendingAdjustment(list(spec["paired"]["progs"]), list(spec["paired"]["t"]))]
                    if fault is None:
                        bump("probe:paired_linear_adjustment")
                # thresholds for hard targets relative to the baseline value (so that the start satisfies them)
                base_model = None
                mspecs = []
                measurables = []
                for m in spec["measurables"]:
                    m = dict(m)
                    if m["type"] == "cascade_stage":
                        mspecs.append(m)
                        measurables.append(at.MaximizeCascadeStage(m["name"], m["t"], pop_names="all", cascade_stage=m["stage"]))
                        if fault is None:
                            bump("probe:cascade_stage_measurable")
                        continue
                    if m["type"] in ("increaseby", "decreaseby"):
                        # relative hard targets: the baseline is the value under the ORIGINAL instructions (documented);
                        # an amount of 0 makes the starting point satisfy the target
                        if base_model is None:
                            with seams.patched():
                                seams.patch(amodel.Model, "process", orig_process)
                                base_model = P.run_sim(parset, progset, instructions).model
                        m["baseline"] = ref_measurable_value(base_model, m["name"], m["t"], m["pops"])
                        m["amount"] = 0.0
                        if not m["baseline"]:
                            m["type"] = "min"
                    if m["type"] in ("atmost", "atleast"):
                        if base_model is None:
                            with seams.patched():
                                seams.patch(amodel.Model, "process", orig_process)
                                base_model = P.run_sim(parset, progset, instructions).model
                        v = ref_measurable_value(base_model, m["name"], m["t"], m["pops"])
                        m["threshold"] = v * (1 + m["threshold_margin"]) + 1e-9 if m["type"] == "atmost" else v * (1 - m["threshold_margin"]) - 1e-9
                    mspecs.append(m)
                    cls = {"min": at.MinimizeMeasurable, "max": at.MaximizeMeasurable, "atmost": at.AtMostMeasurable, "atleast": at.AtLeastMeasurable, "increaseby": at.IncreaseByMeasurable, "decreaseby": at.DecreaseByMeasurable}[m["type"]]
                    if m["type"] in ("min", "max"):
                        measurables.append(cls(m["name"], m["t"], pop_names=m["pops"]))
                    elif m["type"] in ("increaseby", "decreaseby"):
                        measurables.append(cls(m["name"], m["t"], m["amount"], pop_names=m["pops"]))
                    else:
                        measurables.append(cls(m["name"], m["t"], m["threshold"], pop_names=m["pops"]))
                # ---- the documented meaning of every measurable, probed directly on the baseline model (both sides of
                # every threshold), independently of where the optimiser happens to walk
                if base_model is None:
                    with seams.patched():
                        seams.patch(amodel.Model, "process", orig_process)
                        base_model = P.run_sim(parset, progset, instructions).model
                all_pops = [p.name for p in base_model.pops]
                for m in mspecs:
                    if m["type"] == "cascade_stage":
                        continue
                    pops_variants = [m["pops"]]
                    if len(all_pops) > 1:
                        pops_variants.append(all_pops[:1])  # a strict subset, whatever the problem itself selected
                        pops_variants.append(all_pops[1:])
                    for psel in pops_variants:
                        try:
                            v = ref_measurable_value(base_model, m["name"], m["t"], psel)
                        except Exception:
                            continue
                        probes = [
                            (at.MinimizeMeasurable(m["name"], m["t"], pop_names=psel), None, v),
                            (at.MaximizeMeasurable(m["name"], m["t"], pop_names=psel), None, -v),
                            (at.Measurable(m["name"], m["t"], pop_names=psel, weight=2.5), None, 2.5 * v),
                        ]
                        if v > 0:
                            for f in (0.5, 1.5):
                                probes.append((at.AtMostMeasurable(m["name"], m["t"], v * f, pop_names=psel), None, math.inf if v > v * f else 0.0))
                                probes.append((at.AtLeastMeasurable(m["name"], m["t"], v * f, pop_names=psel), None, math.inf if v < v * f else 0.0))
                            for amt in (0.0, 0.5):
                                probes.append((at.IncreaseByMeasurable(m["name"], m["t"], amt, pop_names=psel), v, math.inf if 1.0 < 1 + amt else 0.0))
                                probes.append((at.DecreaseByMeasurable(m["name"], m["t"], amt, pop_names=psel), v, math.inf if 1.0 > 1 - amt else 0.0))
                        for obj, bl, exp in probes:
                            try:
                                got = float(obj.eval(base_model, obj.get_baseline(base_model)))
                            except Exception as e:
                                violate("objective_evaluation_raises", f"optimization.py:{type(obj).__name__}", {"exception": f"{type(e).__name__}: {str(e)[:200]}", "measurable": m["name"], "pops": psel})
                                continue
                            if not close(got, exp):
                                violate("objective_not_the_documented_sum", f"optimization.py:{type(obj).__name__}", {"measurable": {"name": m["name"], "t": m["t"], "pops": psel}, "got": got, "expected": exp, "value_over_requested_pops": v})
                        bump("probe:measurable_semantics_probed", len(probes))
                constraints = None
                if spec["constraint"]:
                    c = spec["constraint"]
                    if c["explicit_t"]:
                        constraints = at.TotalSpendConstraint(t=spec["adjustments"][0]["t"], budget_factor=c["budget_factor"])
                    else:
                        constraints = at.TotalSpendConstraint(budget_factor=c["budget_factor"])
                optimization = at.Optimization(adjustments=adjustments, measurables=measurables, constraints=constraints, maxiters=spec["maxiters"], maxtime=spec["max_time"])
                if spec.get("unfunded") and fault is None:
                    bump("probe:program_frozen_at_zero_spend")
                if spec.get("reused"):
                    # the caller loops over budget levels with ONE Optimization object: an earlier, un-faulted optimize()
                    # from another starting allocation precedes the call under test; the call under test must start
                    # from, be bounded around and keep the total of ITS OWN instructions
                    state["armed"] = False
                    earlier = make_instructions(at, progset, spec)
                    for ts_ in earlier.alloc.values():
                        ts_.vals = [float(v_) * spec["reused"] for v_ in ts_.vals]
                    try:
                        at.optimize(P, optimization, parset, progset, earlier, optim_args={"randseed": spec["randseed"] // 2})
                    except (aopt.InvalidInitialConditions, aopt.UnresolvableConstraint, aopt.FailedConstraint):
                        pass
                    state["armed"] = True
                    if fault is None:
                        bump("probe:optimization_object_reused_from_another_start")
                caller = {"parset": parset, "progset": progset, "instructions": instructions, "settings": P.settings, "data": P.data, "framework": P.framework, "tvec": P.settings.tvec}
                snap = snapshot(caller)
                orig_obj = aopt._objective_fcn
                orig_compute = aopt.Optimization.compute_objective

                def compute_wrapper(self, model, baselines):
                    val = orig_compute(self, model, baselines)
                    try:
                        refv = ref_optimization_objective(model, mspecs)
                    except Exception as e:
                        raise RuntimeError(f"reference objective failed: {type(e).__name__}: {e}")
                    if not close(float(val), refv) and state["bad_objective"] is None:
                        state["bad_objective"] = {"seen": float(val), "reference": refv, "alloc": {k: list(zip(ts.t, ts.vals)) for k, ts in model.program_instructions.alloc.items()}}
                    return val

                seams.patch(aopt.Optimization, "compute_objective", compute_wrapper)

                def obj_wrapper(x, *a, **k):
                    try:
                        val = orig_obj(x, *a, **k)
                    finally:
                        clock.on_evaluation()
                    state["history"].append(([float(v) for v in np.atleast_1d(x)], float(val)))
                    return val

                seams.patch(aopt, "_objective_fcn", obj_wrapper)
                result = at.optimize(P, optimization, parset, progset, instructions, optim_args={"randseed": spec["randseed"]})

            else:  # reconcile
                if spec.get("refine"):
                    # the caller's program set is itself the output of an earlier reconciliation in the same year
                    # (refining step by step); the earlier stage runs un-faulted under the simulated clock
                    state["armed"] = False
                    pre_obj = arec._objective

                    def pre_wrapper(x, *a, **k):
                        try:
                            return pre_obj(x, *a, **k)
                        finally:
                            clock.on_evaluation()

                    seams.patch(arec, "_objective", pre_wrapper)
                    progset = at.reconcile(P, parset, progset, spec["year"], max_time=0.02, unit_cost_bounds=0.3)[0]
                    seams.patch(arec, "_objective", pre_obj)
                    state["armed"] = True
                    if fault is None:
                        bump("probe:reconcile_refines_earlier_output")
                caller = {"parset": parset, "progset": progset, "settings": P.settings, "data": P.data, "framework": P.framework, "project_progsets": P.progsets, "tvec": P.settings.tvec}
                snap = snapshot(caller)
                orig_obj = arec._objective

                def obj_wrapper(x, *a, **k):
                    state["n_process"] += 1  # for reconcile the "simulation" ordinal counts objective evaluations too
                    if fault is not None and state["n_process"] == fault[0]:
                        state["fault_fired"] = True
                        clock.on_evaluation()
                        if fault[1] == "KeyboardInterrupt":
                            raise KeyboardInterrupt()
                        if fault[1] == "MemoryError":
                            raise MemoryError("injected by simulator")
                        raise InjectedFault(f"injected at evaluation {fault[0]}")
                    try:
                        val = orig_obj(x, *a, **k)
                    finally:
                        clock.on_evaluation()
                    state["history"].append(([float(v) for v in np.atleast_1d(x)], float(val)))
                    return val

                seams.patch(arec, "_objective", obj_wrapper)
                kw = {}
                if spec["eval_range"]:
                    kw["eval_range"] = [spec["year"], spec["year"] + 1.0]
                result = at.reconcile(P, parset, progset, spec["year"], max_time=spec["max_time"], unit_cost_bounds=spec["unit_cost_bounds"], baseline_bounds=spec["baseline_bounds"], capacity_bounds=spec["capacity_bounds"], outcome_bounds=spec["outcome_bounds"], **kw)
        except BaseException as e:  # noqa: every exit path is observed
            if isinstance(e, (SystemExit,)):
                raise
            if isinstance(e, RuntimeError) and str(e).startswith("reference objective failed"):
                raise
            exc = e

        # ---------------- oracle 1: no side effects on any exit path -------------------------
        caller_now = dict(caller)
        caller_now["tvec"] = P.settings.tvec
        for k2, v in caller_now.items():
            if v is None:
                continue
            now = flatten(v)
            if now != snap[k2]:
                site = f"{kind}:{'settings' if k2 == 'tvec' else k2}"
                violate("caller_state_modified", site, {"what": k2, "diff": diff_tokens(snap[k2], now, 4), "exit": "exception" if exc is not None else "normal", "exception": None if exc is None else f"{type(exc).__name__}: {str(exc)[:200]}"})

    hist = state["history"]
    out = {"exit": None, "n_process": state["n_process"], "n_constrain": state.get("n_constrain", 0), "n_loads": state.get("n_loads", 0), "n_evals": len(hist), "violations": V, "history_digest": hashlib.sha256(repr(hist).encode()).hexdigest()[:16], "clock_elapsed": clock.elapsed, "clock_faults": clock.fired, "fault_fired": state["fault_fired"]}

    # ---------------- failure paths -------------------------------------------------------
    if exc is not None:
        out["exit"] = f"exception:{type(exc).__name__}"
        if fault is not None and state["fault_fired"]:
            fk = fault[1]
            import pickle as _pk

            expected = {"InjectedFault": InjectedFault, "MemoryError": MemoryError, "KeyboardInterrupt": KeyboardInterrupt, "UnpicklingError": _pk.UnpicklingError}.get(fk)
            if fk == "BadInitialization":
                if kind == "calibrate" and isinstance(exc, amodel.BadInitialization):
                    observe("bad_initialization_not_absorbed", "calibrate", {"exception": str(exc)[:200]})
            elif expected is not None and not isinstance(exc, expected):
                import traceback

                tb = traceback.extract_tb(exc.__traceback__)
                where = next((f"{fr.filename.split('/atomica/')[-1]}:{fr.name}" for fr in reversed(tb) if "/atomica/" in fr.filename), "?")
                observe("failure_masked_by_other_exception", where, {"injected": fk, "surfaced": f"{type(exc).__name__}: {str(exc)[:200]}"})
        else:
            # An exception with no injected failure.  The property does not forbid refusing a problem; it does say
            # that the objective evaluated is the documented sum over the requested outputs, years and populations
            # -- so an exception raised from inside the objective evaluation of a valid request is a violation,
            # anything else (documented refusals, ill-posed problems) is only counted.
            import traceback

            tb = traceback.extract_tb(exc.__traceback__)
            frames = [(fr.filename.split("/atomica/")[-1], fr.name) for fr in tb if "/atomica/" in fr.filename]
            objective_frames = {"get_objective_val", "_calculate_objective", "compute_objective", "eval", "_calculate_fitscore", "_objective"}
            inner = [f for f in frames if f[1] in objective_frames]
            deeper_sim = any(f[1] in ("process", "run_sim", "run_model", "build") for f in frames)
            if inner and not deeper_sim:
                violate("objective_evaluation_raises", f"{inner[-1][0]}:{inner[-1][1]}", {"exception": f"{type(exc).__name__}: {str(exc)[:300]}"})
            else:
                out["refused"] = type(exc).__name__
                if os.environ.get("ATOMSIM_DEBUG_REFUSED"):
                    print("REFUSED", type(exc).__name__, str(exc)[:300], [f for f in frames][-4:], {k: spec[k] for k in spec if k != "clock"}, flush=True)
        return out

    if fault is not None and state["fault_fired"] and fault[1] in ("InjectedFault", "MemoryError", "KeyboardInterrupt"):
        observe("injected_failure_swallowed", kind, {"note": "procedure returned normally although a simulation raised", "n_process": state["n_process"]})

    # ---------------- normal return: remaining oracles -------------------------------------
    out["exit"] = "returned"
    if fault is not None and state["fault_fired"] and fault[1] != "FailedConstraint":
        # An absorbed, injected BadInitialization makes one evaluation look infinitely bad although its point
        # is fine; "no worse than the start" is a statement about true objective values, so the value oracles
        # are evaluated on fault-free executions only (side effects and bounds were checked above / below).
        return out
    if fault is not None and state["fault_fired"] and fault[1] == "FailedConstraint" and hist and math.isfinite(hist[0][1]) and any(list(h[0]) == list(hist[0][0]) and h[1] == math.inf for h in hist[1:]):
        # The injected projection failure landed on the optimizer's own re-evaluation of the STARTING point. The
        # projection is a deterministic function of the point, so outside the simulator a failure there would have
        # been seen by optimize()'s initial-objective check already (InvalidInitialConditions); this fault
        # placement destroys the baseline "the start" refers to and is not one the property quantifies over.
        bump("probe:constraint_fault_on_start_point_discarded")
        return out
    if state["bad_objective"] is not None:
        violate("objective_not_the_documented_sum", kind, state["bad_objective"])
    # ASD evaluates the starting point once and then at most maxiters proposals; optimize() additionally evaluates the
    # starting point itself beforehand (the "initial objective must be finite" check)
    if kind in ("calibrate", "optimize") and len(hist) > spec["maxiters"] + (2 if kind == "optimize" else 1):
        # bounded progress: whatever the clock does (jumps back, stalls), the iteration budget ends the procedure
        observe("iteration_budget_exceeded", kind, {"maxiters": spec["maxiters"], "objective_evaluations": len(hist), "clock_faults": clock.fired})
    if hist:
        f0 = hist[0][1]
        finite = [h[1] for h in hist if not math.isnan(h[1])]
        best_seen = min(finite) if finite else float("nan")
    if kind == "calibrate" and hist:
        # bounds
        new = result
        xs = {}
        for par_name, pop, lo, hi in [tuple(a) for a in spec["adjustables"]]:
            if par_name in new.pars:
                par = new.pars[par_name]
                vals = [("all", par.meta_y_factor)] if pop == "all" else ([(pop, par.y_factor[pop])] if pop is not None else list(par.y_factor.items()))
            else:
                tn, src = par_name.split("_from_")
                par = new.transfers[tn][src]
                vals = [(pop, par.y_factor[pop])]
            for pn, v in vals:
                # the starting value may itself lie outside the bounds; ASD only clips proposals
                start_par = parset.pars[par_name] if par_name in parset.pars else parset.transfers[par_name.split("_from_")[0]][par_name.split("_from_")[1]]
                v0 = start_par.meta_y_factor if pn == "all" else start_par.y_factor[pn]
                if not (lo - 1e-12 <= v <= hi + 1e-12) and v != v0:
                    violate("adjusted_value_out_of_bounds", "calibrate", {"par": par_name, "pop": pn, "value": v, "bounds": [lo, hi]})
        # the returned parset carries the best evaluated point (not the last one, not a mixture)
        ret = []
        for par_name, pop, lo, hi in [tuple(a) for a in spec["adjustables"]]:
            if par_name in new.pars:
                par = new.pars[par_name]
                ret += [par.meta_y_factor] if pop == "all" else ([par.y_factor[pop]] if pop is not None else list(par.y_factor.values()))
            else:
                tn, src = par_name.split("_from_")
                ret.append(new.transfers[tn][src].y_factor[pop])
        fmin = min(h[1] for h in hist)
        if math.isfinite(fmin) and not any(h[1] == fmin and len(h[0]) == len(ret) and all(abs(a - b) <= 1e-12 * max(1, abs(a)) for a, b in zip(h[0], ret)) for h in hist):
            observe("returned_point_is_not_the_best_evaluated", "calibrate", {"returned": ret, "best_value": fmin, "history": hist[:8]})
        # independent re-evaluation: no worse than the start
        with _unpatched_process(amodel, None):
            end = min(P.data.tvec[-1], P.settings.sim_end)
            P2 = _CORPUS[spec["project"]].project()
            scale_measured_data(P2, spec)
            add_total_rows(at, P2, spec)
            # the time grid of the re-evaluation is built by the same sequence of settings calls as the caller's (step,
            # end offset, start offset) followed by the documented shortening to the last data year - with steps such as
            # 0.3 another order of calls snaps the end year to another grid point and the two objectives are not comparable
            if spec.get("dt"):
                P2.settings.update_time_vector(dt=spec["dt"])
            if spec.get("end_offset"):
                P2.settings.update_time_vector(end=P2.settings.sim_end + spec["end_offset"])
            if spec.get("start_offset"):
                P2.settings.update_time_vector(start=P2.settings.sim_start + spec["start_offset"])
            P2.settings.sim_end = min(P2.data.tvec[-1], P2.settings.sim_end)
            oq = []
            for var, pop, w, metric in [tuple(m) for m in spec["measurables"]]:
                for p in [pop] if pop is not None else list(P2.data.pops.keys()):
                    oq.append((var, p, w, metric))

            def evaluate(ps):
                try:
                    r = P2.run_sim(ps)
                except amodel.BadInitialization:
                    return math.inf
                return ref_calibration_objective(r, P2, oq)

            f_start = evaluate(parset)
            f_final = evaluate(new)
        out["f_start"], out["f_final"] = f_start, f_final
        if not (f_final <= f_start or close(f_final, f_start) or math.isnan(f_start)):
            violate("result_worse_than_start", "calibrate", {"f_start": f_start, "f_final": f_final, "history": hist[:6]})
    elif kind == "optimize" and hist:
        new_instr = result
        P2 = _CORPUS[spec["project"]].project()
        if spec.get("dt"):
            P2.settings.update_time_vector(dt=spec["dt"])
        r = P2.run_sim(P2.parsets[0], P2.progsets[0], new_instr)
        f_final = ref_optimization_objective(r.model, mspecs)
        out["f_start"], out["f_final"] = f0, f_final
        if not (f_final <= f0 or close(f_final, f0)):
            violate("result_worse_than_start", "optimize", {"f_start": f0, "f_final": f_final, "best_seen": best_seen, "history": hist[:6]})
        if math.isfinite(f0) and not math.isfinite(f_final):
            violate("hard_target_lost", "optimize", {"f_start": f0, "f_final": f_final})
        # bounds and total spend
        base_instr = make_instructions(at, P2.progsets[0], spec)
        pk = spec.get("package")
        if pk:
            vals = np.array([new_instr.alloc[pn].get(pk["t"]) for pn in pk["progs"]], dtype=float)
            tot0 = float(np.sum(pk["_init"]))
            kwp = pk["_kw"]
            lo_t, hi_t = kwp.get("min_total_spend", tot0), kwp.get("max_total_spend", tot0)
            if not (lo_t - 1e-6 * max(1, tot0) <= vals.sum() <= hi_t + 1e-6 * max(1, tot0)):
                violate("adjusted_value_out_of_bounds", "optimize:package_total", {"total": float(vals.sum()), "bounds": [lo_t, hi_t]})
            if vals.sum() > 0:
                fr = vals / vals.sum()
                mn = np.array(kwp.get("min_props", [0.0] * len(fr)))
                mx = np.array(kwp.get("max_props", [1.0] * len(fr)))
                if kwp.get("fix_props"):
                    f0 = np.array(pk["_init"]) / tot0 if tot0 > 0 else fr
                    if np.max(np.abs(fr - f0)) > 1e-6:
                        violate("adjusted_value_out_of_bounds", "optimize:package_fixed_proportions", {"fractions": fr.tolist(), "initial": f0.tolist()})
                elif np.any(fr < mn - 1e-6) or np.any(fr > mx + 1e-6):
                    violate("adjusted_value_out_of_bounds", "optimize:package_proportions", {"fractions": fr.tolist(), "min": mn.tolist(), "max": mx.tolist()})
        pr = spec.get("paired")
        if pr:
            # the ramp moves money from one program to the other: the pair's total at the end of the ramp is its
            # total at the start, nobody goes below zero, and the first year is untouched
            t0, t1 = pr["t"]
            b0 = [float(P2.progsets[0].get_alloc(t0, base_instr)[pn][0]) for pn in pr["progs"]]
            n0 = [new_instr.alloc[pn].get(t0) for pn in pr["progs"]]
            n1 = [new_instr.alloc[pn].get(t1) for pn in pr["progs"]]
            tol = 1e-6 * max(1.0, sum(b0))
            if any(v is None for v in n0 + n1) or abs(sum(n1) - sum(b0)) > tol or min(n1) < -tol or any(abs(a - b) > tol for a, b in zip(n0, b0)):
                violate("adjusted_value_out_of_bounds", "optimize:paired_ramp", {"progs": pr["progs"], "start_year_before": b0, "start_year_after": n0, "end_of_ramp": n1})
        plain_ = [] if pr else ([a for a in spec["adjustments"] if a["prog"] not in pk["progs"]] if (pk and pk.get("with_plain")) else ([] if pk else spec["adjustments"]))
        for a in plain_:
            for t in a["t"]:
                v = new_instr.alloc[a["prog"]].get(t)
                x0 = float(P2.progsets[0].get_alloc(t, base_instr)[a["prog"]][0])
                lo = a["lower"] if a["limit"] == "abs" else x0 * a["lower"]
                hi = (a["upper"] if a["upper"] is not None else math.inf) if a["limit"] == "abs" else x0 * a["upper"]
                if v is None or not (lo - 1e-6 * max(1, abs(lo)) <= v <= hi + 1e-6 * max(1, abs(hi))):
                    violate("adjusted_value_out_of_bounds", "optimize", {"prog": a["prog"], "t": t, "value": v, "bounds": [lo, hi]})
        if spec["constraint"]:
            years = spec["adjustments"][0]["t"] if not spec["constraint"]["explicit_t"] else spec["adjustments"][0]["t"]
            for t in years:
                tot0 = sum(float(P2.progsets[0].get_alloc(t, base_instr)[a["prog"]][0]) for a in spec["adjustments"])
                want = tot0 * spec["constraint"]["budget_factor"]
                got = sum(new_instr.alloc[a["prog"]].get(t) for a in spec["adjustments"])
                if abs(got - want) > 1e-6 * max(1.0, abs(want)):
                    violate("total_spend_constraint_broken", "optimize", {"t": t, "wanted": want, "got": got})
    elif kind == "reconcile" and hist:
        f0 = hist[0][1]
        new_progset = result[0]
        # independent re-evaluation of the reconciliation objective with a FRESH program set rebuilt from visible data
        out["f_start"], out["f_final"] = f0, min(h[1] for h in hist)
        if out["f_final"] > f0 and not close(out["f_final"], f0):
            violate("result_worse_than_start", "reconcile", {"f_start": f0, "f_final": out["f_final"]})
        # adjusted values stay within the relative bounds given, around the values the caller's program set has in the
        # reconciliation year
        yr = np.array([spec["year"]])

        def _within(v_new, v_old, b):
            lo_, hi_ = sorted([v_old * (1 - b), v_old * (1 + b)])
            return lo_ - 1e-9 * max(1.0, abs(lo_)) <= v_new <= hi_ + 1e-9 * max(1.0, abs(hi_))

        try:
            for pn, prog_new in new_progset.programs.items():
                prog_old = progset.programs[pn]
                if spec["unit_cost_bounds"] and prog_old.unit_cost.has_data:
                    v0, v1 = float(prog_old.unit_cost.interpolate(yr)[0]), float(np.atleast_1d(prog_new.unit_cost.vals)[0])
                    if not _within(v1, v0, spec["unit_cost_bounds"]):
                        violate("adjusted_value_out_of_bounds", "reconcile:unit_cost", {"program": pn, "value": v1, "start": v0, "relative_bound": spec["unit_cost_bounds"]})
                if spec["capacity_bounds"] and prog_old.capacity_constraint.has_data:
                    v0, v1 = float(prog_old.capacity_constraint.interpolate(yr)[0]), float(np.atleast_1d(prog_new.capacity_constraint.vals)[0])
                    if not _within(v1, v0, spec["capacity_bounds"]):
                        violate("adjusted_value_out_of_bounds", "reconcile:capacity_constraint", {"program": pn, "value": v1, "start": v0, "relative_bound": spec["capacity_bounds"]})
            for key_, co_new in new_progset.covouts.items():
                co_old = progset.covouts[key_]
                if spec["baseline_bounds"] and not _within(float(co_new.baseline), float(co_old.baseline), spec["baseline_bounds"]):
                    violate("adjusted_value_out_of_bounds", "reconcile:baseline", {"effect": list(key_), "value": float(co_new.baseline), "start": float(co_old.baseline), "relative_bound": spec["baseline_bounds"]})
                if spec["outcome_bounds"]:
                    for pn, v1 in co_new.progs.items():
                        if pn in co_old.progs and not _within(float(v1), float(co_old.progs[pn]), spec["outcome_bounds"]):
                            violate("adjusted_value_out_of_bounds", "reconcile:outcome", {"effect": list(key_), "program": pn, "value": float(v1), "start": float(co_old.progs[pn]), "relative_bound": spec["outcome_bounds"]})
            bump("probe:reconcile_bounds_checked")
        except (KeyError, IndexError) as e_:
            violate("adjusted_value_out_of_bounds", "reconcile:structure", {"exception": f"{type(e_).__name__}: {e_}"})
    return out


class _unpatched_process:
    """Placeholder context (all seams are already restored when the oracles re-simulate)."""

    def __init__(self, amodel, orig):
        pass

    def __enter__(self):
        return self

    def __exit__(self, *a):
        return False


def run(ch, idx, tier):
    stats = {}

    def bump(k, n=1):
        stats[k] = stats.get(k, 0) + n

    kind = ch.pick("kind", ["calibrate", "optimize", "calibrate", "optimize", "reconcile"])
    spec = {"calibrate": gen_calibration, "optimize": gen_optimization, "reconcile": gen_reconcile}[kind](ch)
    if spec is None:
        return {"violations": [], "stats": stats, "signature": None, "nontrivial": False, "sample": None}
    fault_kinds_extra = ch.pick("extra_fault_kind", ["BadInitialization", "MemoryError", "KeyboardInterrupt"])
    n_extra = 2
    extra_points = [ch.choose(f"extra_fault_at[{i}]", 64) for i in range(n_extra)]
    max_points = 48 if tier == "thorough" else 20

    violations = []
    sigs = []
    trace = []
    spec_hash = hashlib.sha256(repr(spec).encode()).hexdigest()[:10]

    def absorb(res, label):
        for v in res["violations"]:
            if not any(x["cls"] == v["cls"] and x["site"] == v["site"] for x in violations):
                violations.append(v)
        bump("evaluations")
        bump("sim_seconds_x1000", int(1000 * max(0.0, min(res["clock_elapsed"], 1e7))))
        for f in res["clock_faults"]:
            bump(f"fault:clock_{f}")
        sigs.append((kind, spec["project"], spec_hash, label))
        trace.append([label, res["exit"], res["history_digest"], res["n_process"]])

    ref = execute(spec, None, bump)
    absorb(ref, ref["exit"])
    bump(f"kind:{kind}")
    bump(f"probe:exit:{ref['exit']}")
    if ref.get("refused"):
        bump(f"probe:refused:{ref['refused']}")
    if ref["exit"] == "returned":
        if ref["n_evals"] >= 2:
            bump("probe:optimiser_took_steps")
        if ref["clock_elapsed"] > spec["max_time"]:
            bump("probe:time_budget_exhausted")
        if ref["n_evals"] - 1 >= spec.get("maxiters", 10**9):
            bump("probe:iteration_budget_exhausted")
    N = ref["n_process"]
    points = list(range(1, N + 1))
    enumerated = True
    if len(points) > max_points:
        enumerated = False
        step = len(points) / max_points
        points = sorted({points[int(i * step)] for i in range(max_points)} | {1, N})
    if ref["exit"] != "returned" and not ref["violations"]:
        points = points[:3]
    ref_hist = ref["history_digest"]
    for k in points:
        res = execute(spec, (k, "InjectedFault"), bump)
        bump("fault:exception_at_kth_simulation")
        if not res["fault_fired"]:
            bump("probe:crash_point_not_reached")
        absorb(res, f"crash{k}:InjectedFault")
    for j, ep in enumerate(extra_points):
        if N:
            k = 1 + ep % N
            res = execute(spec, (k, fault_kinds_extra), bump)
            bump(f"fault:{fault_kinds_extra}_at_kth_simulation")
            absorb(res, f"crash{k}:{fault_kinds_extra}")
    if kind == "optimize" and ref["exit"] == "returned":
        # FailedConstraint is a legal outcome of the SLSQP projection at any evaluation: the step is rejected and the
        # result must still be no worse than the start, within bounds and on budget (value oracles stay on)
        nc = ref.get("n_constrain", 0)
        for j in sorted({2 + ch.choose(f"fault.failed_constraint_at[{i}]", max(1, nc - 1)) for i in range(2)}) if nc > 1 else []:
            res = execute(spec, (j, "FailedConstraint"), bump)
            if res["fault_fired"]:
                bump("fault:FailedConstraint_at_jth_projection")
            absorb(res, f"constraint{j}:FailedConstraint")
        nl = ref.get("n_loads", 0)
        for j in sorted({1 + ch.choose(f"fault.unpickle_at[{i}]", max(1, nl)) for i in range(2)}) if nl else []:
            res = execute(spec, (j, "UnpicklingError"), bump)
            if res["fault_fired"]:
                bump("fault:UnpicklingError_at_jth_model_copy")
            absorb(res, f"unpickle{j}:UnpicklingError")
    if enumerated and N:
        bump("probe:all_crash_points_enumerated")
    # determinism of the simulation itself: the fault-free execution repeated must give the same history
    again = execute(spec, None, bump)
    bump("evaluations")
    if again["history_digest"] != ref_hist or again["exit"] != ref["exit"]:
        raise RuntimeError(f"HARNESS-NONDETERMINISM: repeated fault-free execution differs ({ref['exit']}/{ref_hist} vs {again['exit']}/{again['history_digest']})")
    sample = {"spec": {k: v for k, v in spec.items() if k != "clock"}, "reference": {k: ref.get(k) for k in ("exit", "n_process", "n_evals", "f_start", "f_final", "clock_elapsed")}, "crash_points": len(points), "violations": [v["cls"] for v in violations]}
    return {"violations": violations, "stats": stats, "signature": None, "signatures": sigs, "nontrivial": True, "sample": sample, "trace": trace}
