"""
C20 -- reported aggregates depend only on what was asked for and add up.

One Result (sometimes two differently named Results) is shared by a seeded history (<= 6) of read-only
reporting calls: PlotData with mixed output lists / population groups / explicit and default aggregation
methods / time bins / accumulation, interpolation, cascade values from results and from data, coverage and
allocation queries, raw and formatted exports, plots.

Sequential specification of a read-only API: (1) after every call the Result (and its program set,
instructions, framework) has the same digest; (2) every series a call returns equals the series returned
when ONLY that output for ONLY that population group is requested, with the same options, on a pristine
copy taken before the history; (3) per answer: sums equal the sum of the parts, averages lie within the
parts, number totals equal the sum over populations, cascade stages never increase, cascade data equal the
sum of the databook entries of each stage's constituents.
"""

import hashlib
import os
import pickle
import shutil
import tempfile

import numpy as np

ID = "C20"
LEVEL = "exploration"
VERSION = 1
RULE = (
    "one case = corpus project (with or without programs) x seeded history of 1..6 reporting calls on one shared Result: PlotData(outputs: plain names, flow selectors, named aggregations, formulas in seeded order and subsets, mixed units on purpose; "
    "pops: names, groups, 'total'; explicit or default output/pop aggregation; t_bins / time_aggregation / accumulate), interpolate (also over two results with different time vectors), get_cascade_vals (framework and ad hoc cascades, every pop / group, years), get_cascade_data, "
    "get_coverage / get_alloc / get_equivalent_alloc, export_raw, export_results, plot_series, plot_bars, plot_cascade, Result.plot; distinct = distinct (project, history of call signatures) hashes; "
    "non-trivial = at least one PlotData/cascade answer was compared with its isolated query and the shared-object invariant was checked after >= 2 calls"
)
ASSUMPTIONS = [
    "no fault dimension: what the technique contributes here is the history / order dimension and the shared-object invariant",
    "isolated queries run on a pristine pickle copy of the Result taken before the history",
    "answers compared with rtol 1e-12 (same arithmetic, possibly different summation grouping) ; additivity 1e-9",
    "matplotlib agg backend; figures closed by the harness",
]
COMPONENTS = {"real": ["atomica plotting.PlotData / Series / plot_series / plot_bars, cascade.*, results.Result / export_results", "matplotlib (agg)", "xlsxwriter"], "stub": ["none"]}

_CORPUS = None
PROJECTS = ["udt", "usdt", "tb_simple", "hiv", "hypertension", "udt_dyn", "tb_simple_dyn", "hiv_dyn", "hypertension_dyn", "diabetes", "cervicalcancer", "uncertainty", "timed_transfer", "service", "timed_test", "timed_indirect", "timed_indirect2", "timed_eligibility", "tb"]
HEAVY = {"tb"}


def budget(tier):
    if tier == "thorough":
        return {"runs": 8000, "wall": 1500, "chunk": 4, "minimise_s": 150}
    return {"runs": 700, "wall": 250, "chunk": 4, "minimise_s": 50}


def prepare(tier):
    global _CORPUS
    from atomsim import corpus

    _CORPUS = corpus.load()


def _key(spec):
    return list(spec.keys())[0] if isinstance(spec, dict) else spec


def _close(a, b, rtol=1e-12, atol=0.0):
    a, b = np.asarray(a, dtype=float), np.asarray(b, dtype=float)
    if a.shape != b.shape:
        return False
    with np.errstate(invalid="ignore"):
        ok = (a == b) | (np.isnan(a) & np.isnan(b)) | (np.abs(a - b) <= atol + rtol * np.maximum(np.abs(a), np.abs(b)))
    return bool(np.all(ok))


def run(ch, idx, tier):
    import atomica as at
    import matplotlib.pyplot as plt
    from atomica.model import SourceCompartment, SinkCompartment, JunctionCompartment, Link
    from atomsim.digest import digest_result, digest_obj

    stats = {}

    def bump(k, n=1):
        stats[k] = stats.get(k, 0) + n

    violations = []
    history = []
    trace = hashlib.sha256()

    def violate(cls, site, detail):
        if not any(v["cls"] == cls and v["site"] == site for v in violations):
            d = dict(detail)
            d["project"] = name
            d["history"] = list(history)
            violations.append({"cls": cls, "site": site, "detail": d})

    from atomsim import corpus as _c

    names = [n for n in PROJECTS if n in _CORPUS and n not in HEAVY] + _c.generated_names()
    if ch.flip("heavy", 0.02) and "tb" in _CORPUS:
        names = ["tb"]
    name = ch.pick("project", names)
    entry = _CORPUS[name]
    P = entry.project()
    use_progs = entry.meta["has_progset"] and ch.flip("with_programs", 0.5)
    instr = at.ProgramInstructions(start_year=float(P.settings.sim_start + 2)) if use_progs else None
    if use_progs and ch.flip("alloc_overwrite_for_some_programs", 0.4):
        # the instructions overwrite the spending of a subset of the programs (time-varying for the first)
        pn_ = list(P.progsets[0].programs.keys())
        sub_ = ch.shuffle("alloc_overwrite.progs", pn_)[: 1 + ch.choose("alloc_overwrite.n", len(pn_))]
        alloc_ = {}
        for j_, q_ in enumerate(sub_):
            sd_ = P.progsets[0].programs[q_].spend_data
            b_ = float(sd_.interpolate(instr.start_year)[0]) if sd_.has_data else 100.0
            alloc_[q_] = at.TimeSeries([instr.start_year, instr.start_year + 2], [b_ * 1.5, b_ * 0.5]) if j_ == 0 else b_ * 2.0
        instr = at.ProgramInstructions(start_year=instr.start_year, alloc=alloc_)
    res = P.run_sim(P.parsets[0], P.progsets[0] if use_progs else None, instr, result_name="shared")
    two_results = ch.flip("two_results", 0.2)
    res_b = None
    if two_results:
        ps2 = P.parsets[0].copy("b")
        for par in list(ps2.pars.values())[:4]:
            par.meta_y_factor = 0.9
        try:
            if ch.flip("second_result_other_dt", 0.6):
                import sciris as _sc

                P_b = _sc.dcp(P)
                P_b.settings.update_time_vector(dt=P.settings.sim_dt * 2)
                res_b = P_b.run_sim(ps2, None, None, result_name="second")
            else:
                res_b = P.run_sim(ps2, None, None, result_name="second")
        except at.BadInitialization:
            res_b = None
    blob = pickle.dumps(res)
    blob_b = pickle.dumps(res_b) if res_b is not None else None

    def pristine(which="shared"):
        return pickle.loads(blob if which == "shared" else blob_b)

    def full_digest(r):
        # every array of the result plus the wiring the reporting code walks (which links belong to which
        # population, compartment and parameter): a reporting call that re-wires the model changes later reports
        m = r.model
        wiring = []
        for pop in m.pops:
            ids = {id(l): i for i, l in enumerate(pop.links)}
            wiring.append((pop.name, len(pop.links), [(k2, [ids.get(id(l), -1) for l in v]) for k2, v in pop.link_lookup.items()], [(c.name, len(c.inlinks), len(c.outlinks)) for c in pop.comps], [(q.name, len(q.links)) for q in pop.pars], [(c.name, len(c.includes)) for c in pop.characs]))
        return digest_result(r) + hashlib.sha256(repr(wiring).encode()).hexdigest()[:16]

    d_res0 = full_digest(res)
    d_aux0 = digest_obj([res.model.progset, res.model.program_instructions, res.model.framework])
    d_resb0 = full_digest(res_b) if res_b is not None else None
    fw = res.framework
    pops = [p.name for p in res.model.pops]
    pop0 = res.model.pops[0]
    plain = [c.name for c in pop0.comps if not isinstance(c, (SourceCompartment, SinkCompartment, JunctionCompartment))]
    characs = [c.name for c in pop0.characs]
    pars = [p.name for p in pop0.pars if p.vals is not None and p.name in fw.pars.index]
    flows = [f"{p.name}:flow" for p in pop0.pars if p.links and p.name in fw.pars.index]
    selectors = []
    for c in pop0.comps:
        if c.outlinks and not isinstance(c, (SourceCompartment, JunctionCompartment)):
            selectors.append(f"{c.name}:")
        if c.inlinks and not isinstance(c, JunctionCompartment):
            selectors.append(f":{c.name}")
    number_outputs = plain + [c for c in characs if pop0.get_charac(c).denominator is None]
    all_named = plain + characs + pars + flows + selectors[:6]
    scratch = tempfile.mkdtemp(prefix="atomsim_c20_", dir=os.environ.get("VERIF_SCRATCH"))
    compared = 0
    invariant_checks = 0

    def gen_output(i):
        kind = ch.choose(f"out[{i}].kind", 6)
        if kind <= 2 or len(all_named) < 2:
            return all_named[ch.choose(f"out[{i}].name", len(all_named))]
        if kind == 3:  # aggregation of like quantities
            src = [plain, characs, pars, flows][ch.choose(f"out[{i}].src", 4)] or plain
            k = 2 + ch.choose(f"out[{i}].n", min(3, max(1, len(src) - 1)))
            members = ch.shuffle(f"out[{i}].members", src)[:k]
            return {f"agg{i}": members}
        if kind == 4:  # aggregation mixing units on purpose
            k = 2 + ch.choose(f"out[{i}].n", 2)
            members = ch.shuffle(f"out[{i}].members", all_named)[:k]
            return {f"mix{i}": members}
        a = plain[ch.choose(f"out[{i}].fa", len(plain))]
        b = (characs or plain)[ch.choose(f"out[{i}].fb", len(characs or plain))]
        return {f"fcn{i}": [f"{a}+{b}", f"{a}/({b}+1)", f"2*{a}"][ch.choose(f"out[{i}].form", 3)]}

    def gen_pops():
        kind = ch.choose("pops.kind", 6)
        if kind == 5 and len(pops) >= 2:
            # two (possibly overlapping) groups of different membership in one call, optionally after a plain population
            g1 = ch.shuffle("pops.g1", pops)[: 1 + ch.choose("pops.g1n", len(pops))]
            g2 = ch.shuffle("pops.g2", pops)[: 1 + ch.choose("pops.g2n", len(pops))]
            if sorted(g1) == sorted(g2):
                g2 = [p_ for p_ in pops if p_ not in g1][:1] or g2[:1]
            out_ = [{"first group": g1}, {"second group": g2}]
            if ch.flip("pops.plain_first", 0.3):
                out_ = [pops[0]] + out_
            return out_
        if kind == 0 or len(pops) == 1 and kind < 3:
            return None
        if kind == 1:
            return "total"
        if kind == 2:
            return ch.shuffle("pops.subset", pops)[: 1 + ch.choose("pops.n", len(pops))]
        if kind == 3 and len(pops) >= 2:
            grp = ch.shuffle("pops.group", pops)[: 2 + ch.choose("pops.gn", len(pops) - 1)]
            rest = [p for p in pops if p not in grp][:1]
            return [{"group": grp}] + rest
        return [pops[ch.choose("pops.one", len(pops))]]

    def plotdata_op(k):
        nonlocal compared
        n_out = 1 + ch.choose("n_outputs", 4)
        outputs = []
        for i in range(n_out):
            o = gen_output(i)
            if _key(o) not in [_key(x) for x in outputs]:
                outputs.append(o)
        pp = gen_pops()
        oa = [None, None, "sum", "average", "weighted"][ch.choose("output_aggregation", 5)]
        pa = [None, None, "sum", "average", "weighted"][ch.choose("pop_aggregation", 5)]
        kw = {}
        tb = ch.choose("t_bins", 5)
        if tb == 1:
            kw["t_bins"] = [1, 2, 5][ch.choose("t_bins.size", 3)]
        elif tb == 2:
            t0 = float(res.t[0])
            kw["t_bins"] = [t0, t0 + 1.5, t0 + 3, t0 + 4]
        elif tb == 3:
            kw["t_bins"] = "all"
        if "t_bins" in kw:
            kw["time_aggregation"] = [None, "integrate", "average"][ch.choose("time_aggregation", 3)]
        if ch.flip("accumulate", 0.15):
            kw["accumulate"] = ["integrate", "sum"][ch.choose("accumulate.kind", 2)]
        results_arg = [res, res_b] if (res_b is not None and ch.flip("both_results", 0.5)) else res
        call = {"op": "PlotData", "outputs": outputs, "pops": pp, "output_aggregation": oa, "pop_aggregation": pa, **{k2: (v if not isinstance(v, np.ndarray) else v.tolist()) for k2, v in kw.items()}, "results": "both" if isinstance(results_arg, list) else "shared"}
        history.append(call)
        try:
            d = at.PlotData(results_arg, outputs=outputs, pops=pp, output_aggregation=oa, pop_aggregation=pa, **kw)
            shared_exc = None
        except Exception as e:
            d, shared_exc = None, e
        # ---- isolated queries ----------------------------------------------------------------
        pops_specs = pp
        if pp in (None, "all"):
            pops_specs = list(pops)
        elif pp == "total":
            pops_specs = [{"Total": list(pops)}]
        iso = {}
        iso_fail = 0
        for ospec in outputs:
            for pspec in pops_specs:
                try:
                    di = at.PlotData(pristine(), outputs=[ospec], pops=[pspec], output_aggregation=oa, pop_aggregation=pa, **kw)
                    iso[(_key(pspec), _key(ospec))] = di.series[0]
                except Exception:
                    iso_fail += 1
        if shared_exc is not None:
            if iso_fail == 0 and iso:
                violate("combined_query_raises_but_every_part_answers", "PlotData.__init__", {"exception": f"{type(shared_exc).__name__}: {str(shared_exc)[:200]}", "call": call})
            else:
                bump("query_refused")
            return None
        iso_b = {}
        if isinstance(results_arg, list) and ("t_bins" not in kw or isinstance(kw["t_bins"], list)):
            # the second result's answers must not depend on the first result being in the same call (scalar / 'all'
            # time bins are documented to be expanded from the data of the call, so with results of different time
            # spans they are only compared when the bin edges are given explicitly)
            for ospec in outputs[:2]:
                for pspec in pops_specs[:2]:
                    try:
                        di = at.PlotData(pristine("second"), outputs=[ospec], pops=[pspec], output_aggregation=oa, pop_aggregation=pa, **kw)
                        iso_b[(_key(pspec), _key(ospec))] = di.series[0]
                    except Exception:
                        pass
        for s in d.series:
            try:
                looked_up = d[(s.result, s.pop, s.output)]
                if looked_up is not s and not (_close(looked_up.vals, s.vals) and looked_up.pop == s.pop and looked_up.output == s.output and looked_up.result == s.result):
                    violate("lookup_returns_other_series", "PlotData.__getitem__", {"asked": [s.result, s.pop, s.output], "got": [looked_up.result, looked_up.pop, looked_up.output]})
            except Exception:
                pass
            ref = iso.get((s.pop, s.output)) if s.result == "shared" else iso_b.get((s.pop, s.output))
            if ref is None:
                continue
            compared += 1
            bump("evaluations")
            trace.update(np.asarray(s.vals, dtype=float).tobytes())
            if not (_close(s.vals, ref.vals) and _close(s.tvec, ref.tvec)):
                which = "default" if (oa is None or pa is None) else "explicit"
                violate("answer_depends_on_other_requests", f"PlotData.__init__[{which} aggregation]", {"series": [s.pop, s.output], "shared": np.asarray(s.vals)[:4].tolist(), "isolated": np.asarray(ref.vals)[:4].tolist(), "units": [s.units, ref.units], "call": call})
            elif s.units != ref.units and not (isinstance(s.units, float) and isinstance(ref.units, float) and np.isnan(s.units) and np.isnan(ref.units)):
                violate("reported_units_depend_on_other_requests", "PlotData.__init__", {"series": [s.pop, s.output], "units": [s.units, ref.units], "call": call})
        # ---- arithmetic on the isolated answers (parts) --------------------------------------------
        if not kw:
            for ospec in outputs:
                if isinstance(ospec, dict) and isinstance(list(ospec.values())[0], list):
                    members = list(ospec.values())[0]
                    for pspec in pops_specs:
                        if isinstance(pspec, dict):
                            continue
                        agg = iso.get((_key(pspec), _key(ospec)))
                        if agg is None:
                            continue
                        try:
                            parts = [at.PlotData(pristine(), outputs=[m], pops=[pspec]).series[0].vals for m in members]
                        except Exception:
                            continue
                        parts = np.array(parts)
                        if oa == "sum" and not _close(agg.vals, parts.sum(axis=0), rtol=1e-9, atol=1e-12):
                            violate("sum_is_not_sum_of_parts", "PlotData.output_aggregation", {"output": ospec, "pop": pspec})
                        if oa in ("average", "weighted"):
                            lo, hi = np.nanmin(parts, axis=0), np.nanmax(parts, axis=0)
                            v = np.asarray(agg.vals)
                            fin = np.isfinite(v) & np.isfinite(lo) & np.isfinite(hi)
                            tol = 1e-9 * np.maximum(1.0, np.abs(hi))
                            if np.any((v[fin] < lo[fin] - tol[fin]) | (v[fin] > hi[fin] + tol[fin])):
                                violate("average_outside_parts", f"PlotData.output_aggregation[{oa}]", {"output": ospec, "pop": pspec})
                        bump("probe:output_aggregation_arithmetic_checked")
            for pspec in pops_specs:
                if isinstance(pspec, dict):
                    grp = list(pspec.values())[0]
                    for ospec in outputs:
                        if isinstance(ospec, dict):
                            continue
                        agg = iso.get((_key(pspec), ospec))
                        if agg is None:
                            continue
                        try:
                            parts = np.array([at.PlotData(pristine(), outputs=[ospec], pops=[g]).series[0].vals for g in grp])
                        except Exception:
                            continue
                        is_number = ospec in number_outputs
                        if (pa == "sum" or (pa is None and is_number)) and not _close(agg.vals, parts.sum(axis=0), rtol=1e-9, atol=1e-12):
                            violate("total_is_not_sum_over_populations", "PlotData.pop_aggregation", {"output": ospec, "pops": grp, "pop_aggregation": pa})
                        if pa in ("average", "weighted"):
                            lo, hi = np.nanmin(parts, axis=0), np.nanmax(parts, axis=0)
                            v = np.asarray(agg.vals)
                            fin = np.isfinite(v) & np.isfinite(lo) & np.isfinite(hi)
                            tol = 1e-9 * np.maximum(1.0, np.abs(hi))
                            if np.any((v[fin] < lo[fin] - tol[fin]) | (v[fin] > hi[fin] + tol[fin])):
                                violate("average_outside_parts", f"PlotData.pop_aggregation[{pa}]", {"output": ospec, "pops": grp})
                        bump("probe:pop_aggregation_arithmetic_checked")
        return d

    def cascade_specs():
        specs = []
        for i, cname in enumerate(fw.cascades.keys()):
            specs += [cname, i]
        specs.append(None)
        # ad hoc: nested characteristic lists / dicts built from framework includes
        inc = {c: set(fw.get_charac_includes([c])) for c in characs if pop0.get_charac(c).denominator is None}  # stages count people
        chain = sorted(inc, key=lambda c: -len(inc[c]))
        nested = []
        for c in chain:
            if not nested or inc[c] <= inc[nested[-1]]:
                nested.append(c)
        if len(nested) >= 2:
            specs.append(nested[:4])
            specs.append({f"Stage {j}": sorted(inc[c]) for j, c in enumerate(nested[:3])})
        return specs

    def ref_stage_vals(r, cascade_dict, pop_list):
        out = {}
        for stage, includes in cascade_dict.items():
            comps = fw.get_charac_includes(includes)
            # a stage listing several names SUMS them (PlotData 'sum' of number quantities), duplicates included
            total = np.zeros(r.t.shape)
            for pop in pop_list:
                for inc_name in includes if not isinstance(includes, str) else [includes]:
                    for cn in fw.get_charac_includes([inc_name]):
                        total = total + r.get_variable(cn, pop)[0].vals
            out[stage] = total
        return out

    def cascade_vals_op(k):
        nonlocal compared
        from atomica.cascade import sanitize_cascade, get_cascade_vals

        specs = cascade_specs()
        spec = specs[ch.choose("cascade.spec", len(specs))]
        pk = ch.choose("cascade.pops", 3)
        pp = [None, "all"][ch.choose("cascade.all", 2)] if pk == 0 else (pops[ch.choose("cascade.pop", len(pops))] if pk == 1 else ch.shuffle("cascade.poplist", pops)[: 1 + ch.choose("cascade.npops", len(pops))])
        yk = ch.choose("cascade.year", 3)
        year = None if yk == 0 else (float(res.t[ch.choose("cascade.year_idx", len(res.t))]) if yk == 1 else [float(res.t[1]), float(res.t[-1]) - 0.3])
        history.append({"op": "get_cascade_vals", "cascade": spec if not isinstance(spec, dict) else {k2: v for k2, v in spec.items()}, "pops": pp, "year": year})
        try:
            _, cdict, _ = sanitize_cascade(fw, spec)
        except Exception:
            bump("query_refused")
            return
        try:
            vals, t = get_cascade_vals(res, spec, pp, year)
        except Exception as e:
            bump("query_refused")
            return
        compared += 1
        bump("evaluations")
        arr = np.array([vals[s] for s in vals.keys()])
        tol = 1e-9 * np.maximum(1.0, np.abs(arr[:-1]))
        with np.errstate(invalid="ignore"):
            if np.any(arr[1:] > arr[:-1] + tol):
                violate("cascade_stage_increases", "get_cascade_vals", {"cascade": str(spec), "pops": pp, "year": year})
        pop_list = pops if pp in (None, "all") else ([pp] if isinstance(pp, str) else list(pp))
        ref = ref_stage_vals(pristine(), cdict, pop_list)
        for s in vals.keys():
            rv = ref[s] if year is None else np.interp(np.atleast_1d(year), res.t, ref[s], left=np.nan, right=np.nan)
            if not _close(vals[s], rv, rtol=1e-9, atol=1e-9):
                violate("cascade_value_not_sum_of_constituents", "get_cascade_vals", {"stage": s, "cascade": str(spec), "pops": pp, "year": year, "got": np.asarray(vals[s])[:3].tolist(), "expected": np.asarray(rv)[:3].tolist()})
                break
        bump("probe:cascade_vals_checked")

    def cascade_data_op(k):
        nonlocal compared
        from atomica.cascade import sanitize_cascade, get_cascade_data

        specs = cascade_specs()
        spec = specs[ch.choose("cdata.spec", len(specs))]
        pk = ch.choose("cdata.pops", 3)
        pp = "all" if pk == 0 else (pops[ch.choose("cdata.pop", len(pops))] if pk == 1 else ch.shuffle("cdata.poplist", pops)[: 1 + ch.choose("cdata.npops", len(pops))])
        yk = ch.choose("cdata.years", 4)
        if yk == 0:
            year = None
        elif yk == 1:
            year = [float(P.data.tvec[0]), float(P.data.tvec[-1])]
        elif yk == 2:
            year = float(P.data.tvec[ch.choose("cdata.year_idx", len(P.data.tvec))])
        else:
            # several years in any order, preferring years that hold entries (each reported value belongs to ITS year)
            try:
                _, cd_, _ = sanitize_cascade(fw, spec)
                have = sorted({float(t_) for inc_ in cd_.values() for code_ in ([inc_] if isinstance(inc_, str) else inc_) for pop_ in pops for ts_ in [P.data.get_ts(code_, pop_)] if ts_ is not None for t_ in ts_.t})
            except Exception:
                have = []
            cand = have + [float(y_) for y_ in P.data.tvec if float(y_) not in have][:2]
            ys = ch.shuffle("cdata.year_order", cand)
            year = ys[: 2 + ch.choose("cdata.nyears", max(1, min(4, len(ys) - 1)))] if len(ys) >= 2 else None
        # sparse data: some populations lack entries for some constituents / years (databooks are rarely complete)
        import sciris as _sc

        data_ = P.data
        gaps = []
        if len(pops) > 1 and ch.flip("cdata.gaps", 0.5):
            data_ = _sc.dcp(P.data)
            try:
                _, cd0, _ = sanitize_cascade(fw, spec)
                consts = sorted({c for inc in cd0.values() for c in ([inc] if isinstance(inc, str) else inc)})
            except Exception:
                consts = []
            for g in range(1 + ch.choose("cdata.ngaps", 3)):
                if not consts:
                    break
                code = consts[ch.choose(f"cdata.gap_const[{g}]", len(consts))]
                pop_g = pops[ch.choose(f"cdata.gap_pop[{g}]", len(pops))]
                ts_g = data_.get_ts(code, pop_g)
                if ts_g is not None and ts_g.has_time_data:
                    if ch.flip(f"cdata.gap_all[{g}]", 0.5):
                        ts_g.t, ts_g.vals = [], []
                    else:
                        ts_g.remove(ts_g.t[ch.choose(f"cdata.gap_year[{g}]", len(ts_g.t))])
                    gaps.append([code, pop_g])
        history.append({"op": "get_cascade_data", "cascade": str(spec), "pops": pp, "year": year, "gaps": gaps})
        try:
            _, cdict, _ = sanitize_cascade(fw, spec)
            d_before = digest_obj(data_)
            vals, t = get_cascade_data(data_, fw, spec, pp, year)
        except Exception:
            bump("query_refused")
            return
        if digest_obj(data_) != d_before:
            violate("reporting_modifies_data", "get_cascade_data", {"cascade": str(spec)})
        if gaps:
            bump("probe:cascade_data_with_gaps")
        compared += 1
        bump("evaluations")
        pop_list = pops if pp == "all" else ([pp] if isinstance(pp, str) else list(pp))
        t = np.asarray(t, dtype=float)
        for stage, includes in cdict.items():
            includes = [includes] if isinstance(includes, str) else includes
            exp = np.zeros(t.shape)
            for code in includes:
                for pop in pop_list:
                    ts = data_.get_ts(code, pop)
                    v = np.full(t.shape, np.nan)
                    if ts is not None:
                        for tv, vv in zip(ts.t, ts.vals):
                            m = np.where(t == tv)[0]
                            if len(m):
                                v[m[0]] = vv
                    exp = exp + v
            if not _close(vals[stage], exp, rtol=1e-9, atol=1e-9):
                violate("cascade_data_not_sum_of_databook_entries", "get_cascade_data", {"stage": stage, "constituents": includes, "pops": pop_list, "got": np.asarray(vals[stage])[:4].tolist(), "expected": exp[:4].tolist()})
                break
        bump("probe:cascade_data_checked")

    def misc_op(k):
        kind = ch.choose("misc.kind", 10)
        label = ["get_coverage", "get_alloc", "get_equivalent_alloc", "export_raw", "export_results", "plot_series", "plot_bars", "plot_cascade", "Result.plot", "Result.get_variable"][kind]
        history.append({"op": label})
        try:
            if kind == 0:
                q = ["fraction", "eligible", "number", "capacity"][ch.choose("misc.cov", 4)]
                out = res.get_coverage(q, None if ch.flip("misc.allyears", 0.5) else float(res.t[3]))
                if out is not None and use_progs:
                    ref = pristine().get_coverage(q, None)
                    bump("probe:coverage_queried")
            elif kind == 1:
                res.get_alloc()
            elif kind == 2:
                res.get_equivalent_alloc()
            elif kind == 3:
                res.export_raw(os.path.join(scratch, f"raw{k}.xlsx") if ch.flip("misc.tofile", 0.3) else None)
            elif kind == 4:
                at.export_results([res] + ([res_b] if res_b is not None else []), os.path.join(scratch, f"exp{k}.xlsx"))
            elif kind == 5:
                d = at.PlotData(res, outputs=plain[:2], pops=pops[:2])
                at.plot_series(d, axis=["pops", "outputs", "results"][ch.choose("misc.axis", 3)], plot_type=["line", "stacked"][ch.choose("misc.ptype", 2)])
            elif kind == 6:
                d = at.PlotData(res, outputs=plain[:2], pops=pops[:2], t_bins=2)
                at.plot_bars(d, stack_outputs="all" if ch.flip("misc.stack", 0.5) else None)
            elif kind == 7:
                at.plot_cascade(res, cascade=None, pops="all", year=float(res.t[-1]), data=P.data if ch.flip("misc.withdata", 0.5) else None)
            elif kind == 9:
                # the lookup the plotting/export code itself uses, across all populations or in one
                nm = all_named[ch.choose("misc.var", len(all_named))]
                res.get_variable(nm, None if ch.flip("misc.var_allpops", 0.7) else pops[ch.choose("misc.var_pop", len(pops))])
            else:
                plot_names = [str(x) for x in P.framework.sheets["plots"][0]["name"]] if "plots" in P.framework.sheets and len(P.framework.sheets["plots"]) else []
                which = ch.choose("misc.plot_name", len(plot_names) + 1)
                res.plot(plot_name=plot_names[which - 1] if which else None, project=P if ch.flip("misc.project", 0.5) else None)
        except Exception as e:
            bump(f"call_raised:{label}:{type(e).__name__}")
        finally:
            plt.close("all")

    def programs_op(k):
        nonlocal compared
        if not use_progs:
            return misc_op(k)
        prog_names = list(res.model.progset.programs.keys())
        quantity = ["spending", "coverage_number", "coverage_eligible", "coverage_fraction", "coverage_capacity", "equivalent_spending"][ch.choose("programs.quantity", 6)]
        kind = ch.choose("programs.outputs", 3)
        if kind == 0:
            outputs = None
        elif kind == 1:
            outputs = ch.shuffle("programs.subset", prog_names)[: 1 + ch.choose("programs.n", len(prog_names))]
        else:
            if len(prog_names) >= 2 and ch.flip("programs.package", 0.6):
                quantity = "spending"
            if quantity == "spending" and len(prog_names) >= 2:
                # a package, then (in any mix) one of its own members, another program, a second package sharing a member
                outputs = [{"package": prog_names[:2]}]
                extra = ch.choose("programs.after_package", 4)
                if extra in (1, 3):
                    outputs.append(prog_names[ch.choose("programs.member", 2)])
                if extra in (2, 3) and len(prog_names) >= 3:
                    outputs.append({"package2": [prog_names[0], prog_names[2]]})
                outputs += prog_names[2:3] if prog_names[2:3] and prog_names[2] not in outputs else []
            else:
                outputs = prog_names[:1]
        kw = {"nan_outside": ch.flip("programs.nan_outside", 0.5)}
        tb = ch.choose("programs.t_bins", 3)
        if tb == 1:
            kw["t_bins"] = 2
        elif tb == 2:
            kw["t_bins"] = "all"
        if ch.flip("programs.accumulate", 0.15):
            kw["accumulate"] = "integrate"
        history.append({"op": "PlotData.programs", "outputs": outputs, "quantity": quantity, **kw})
        try:
            d = at.PlotData.programs(res, outputs=outputs, quantity=quantity, **kw)
        except Exception as e:
            bump("query_refused")
            return
        outs = list(d.outputs.keys())
        try:
            named_specs = {list(x.keys())[0]: x for x in (outputs or []) if isinstance(x, dict)}
            for o in outs[:4]:
                spec = named_specs.get(o, o)
                di = at.PlotData.programs(pristine(), outputs=[spec], quantity=quantity, **kw)
                a = [s_ for s_ in d.series if s_.output == o][0]
                b = di.series[0]
                compared += 1
                bump("evaluations")
                trace.update(np.asarray(a.vals, dtype=float).tobytes())
                if not (_close(a.vals, b.vals) and _close(a.tvec, b.tvec)):
                    violate("answer_depends_on_other_requests", "PlotData.programs", {"series": o, "quantity": quantity, "shared": np.asarray(a.vals)[:4].tolist(), "isolated": np.asarray(b.vals)[:4].tolist(), "call": history[-1]})
            if "package" in outs and quantity == "spending":
                # a package reports the total of its members
                members = [at.PlotData.programs(pristine(), outputs=[m_], quantity=quantity, **kw).series[0] for m_ in prog_names[:2]]
                pk_ = [s_ for s_ in d.series if s_.output == "package"][0]
                tot_ = np.asarray(members[0].vals, dtype=float) + np.asarray(members[1].vals, dtype=float)
                if not _close(pk_.vals, tot_, rtol=1e-9, atol=1e-9):
                    violate("sum_is_not_sum_of_parts", "PlotData.programs[package]", {"quantity": quantity, "package": np.asarray(pk_.vals)[:4].tolist(), "members_total": tot_[:4].tolist(), "call": history[-1]})
                bump("probe:package_total_checked")
        except Exception:
            bump("query_refused")
        bump("probe:program_quantities_checked")

    def interpolate_op(k):
        nonlocal compared
        n_out = 1 + ch.choose("interp.n_out", 3)
        outputs = []
        for i in range(n_out):
            o = all_named[ch.choose(f"interp.out[{i}]", len(all_named))]
            if o not in outputs:
                outputs.append(o)
        pp = pops[: 1 + ch.choose("interp.n_pops", min(2, len(pops)))]
        both = res_b is not None and ch.flip("interp.both_results", 0.6)
        history.append({"op": "PlotData.interpolate", "outputs": outputs, "pops": pp, "results": "both" if both else "shared"})
        new_t = np.array([float(res.t[0]) + 0.1, float(res.t[2]), float(res.t[-1]) - 0.05])
        try:
            d = at.PlotData([res, res_b] if both else res, outputs=outputs, pops=pp)
            base = {(s_.result, s_.pop, s_.output): (np.array(s_.tvec), np.array(s_.vals)) for s_ in d.series}
        except Exception:
            bump("query_refused")
            return
        try:
            d.interpolate(new_t)
            shared_exc = None
        except Exception as e:
            shared_exc = e
        if both:
            bump("probe:interpolate_results_with_different_time_vectors")
        alone_ok = 0
        for s_ in d.series:
            # the value reported for one series on the new time points is what the same series asked for alone reports
            # (alone also means: without the other result, whose time vector may differ, in the same object)
            try:
                alone = at.PlotData(pristine("second") if s_.result == "second" else pristine(), outputs=[s_.output], pops=[s_.pop])
                alone.interpolate(new_t)
                alone_ok += 1
            except Exception:
                bump("isolated_query_refused")
                continue
            if shared_exc is not None:
                continue
            compared += 1
            bump("evaluations")
            if not _close(s_.vals, alone.series[0].vals, rtol=1e-12, atol=1e-12):
                violate("answer_depends_on_other_requests", "PlotData.interpolate", {"series": [s_.pop, s_.output], "shared": np.asarray(s_.vals)[:4].tolist(), "isolated": np.asarray(alone.series[0].vals)[:4].tolist(), "call": history[-1]})
            tv, bv = base[(s_.result, s_.pop, s_.output)]
            if not _close(s_.vals, np.interp(new_t, tv, bv), rtol=1e-12, atol=1e-12):
                bump("observed_beyond_property:interpolation_not_linear")  # the interpolation rule itself is not part of C20's statement
        if shared_exc is not None:
            if alone_ok == len(d.series) and alone_ok:
                violate("combined_query_raises_but_every_part_answers", "PlotData.interpolate", {"exception": f"{type(shared_exc).__name__}: {str(shared_exc)[:200]}", "call": history[-1]})
            else:
                bump("query_refused")

    def probe_reports(r):
        # what a user sees of a result: a fixed set of reports (first compartment, first flow, and with programs the
        # coverage fractions, capacities and spending).  "Producing plots or exports never modifies the result" is
        # judged on these as well as on the stored arrays: a reporting call that changes what a later report shows
        # has modified the result, wherever the change is kept.
        h_ = hashlib.sha256()
        try:
            for s_ in at.PlotData(r, outputs=plain[:1] + flows[:1], pops=pops[:1]).series:
                h_.update(np.asarray(s_.vals, dtype=float).tobytes())
            if use_progs:
                for q_ in ("coverage_fraction", "coverage_capacity", "spending"):
                    for s_ in at.PlotData.programs(r, quantity=q_).series:
                        h_.update(np.asarray(s_.vals, dtype=float).tobytes())
        except Exception as e_:
            h_.update(repr(type(e_).__name__).encode())
        return h_.hexdigest()[:20]

    probe0 = probe_reports(pristine())
    nops = 1 + ch.choose("history_length", 6)
    try:
        for k in range(nops):
            ch.mark(f"op{k}")
            kind = ch.choose(f"op[{k}].kind", 10)
            if kind >= 8:
                programs_op(k)
            elif kind <= 3:
                plotdata_op(k)
            elif kind == 4:
                cascade_vals_op(k)
            elif kind == 5:
                cascade_data_op(k)
            elif kind == 6:
                misc_op(k)
            else:
                interpolate_op(k)
            # ---- shared-object invariant after every call ----------------------------------------
            invariant_checks += 1
            if full_digest(res) != d_res0:
                violate("reporting_modifies_result", history[-1]["op"], {"after": history[-1]})
                d_res0 = full_digest(res)
            pr_ = probe_reports(res)
            if pr_ != probe0:
                violate("reporting_modifies_result", history[-1]["op"] + "[later reports differ]", {"after": history[-1]})
                probe0 = pr_
            if digest_obj([res.model.progset, res.model.program_instructions, res.model.framework]) != d_aux0:
                violate("reporting_modifies_result_inputs", history[-1]["op"], {"after": history[-1]})
                d_aux0 = digest_obj([res.model.progset, res.model.program_instructions, res.model.framework])
            if res_b is not None and full_digest(res_b) != d_resb0:
                violate("reporting_modifies_result", history[-1]["op"] + "[second result]", {"after": history[-1]})
                d_resb0 = full_digest(res_b)
    finally:
        plt.close("all")
        shutil.rmtree(scratch, ignore_errors=True)
    bump("model_years_x1000", int(1000 * (res.t[-1] - res.t[0])))
    sig = hashlib.sha256(repr((name, use_progs, [(h["op"], str(h.get("outputs")), str(h.get("pops")), h.get("output_aggregation"), h.get("pop_aggregation"), str(h.get("cascade"))) for h in history])).encode()).hexdigest()[:16]
    return {
        "violations": violations,
        "stats": stats,
        "signature": sig,
        "nontrivial": bool(compared >= 1 and invariant_checks >= 2),
        "sample": {"project": name, "programs": use_progs, "history": history, "answers_compared": compared, "violations": [v["cls"] for v in violations]},
        "oplog": history,
        "trace": trace.hexdigest(),
    }
