"""
Observation: bit-level digests of Results and canonical structural digests / diffs of inputs.

digest_result  -- sha256 over every array of a Result (compartments incl. timed sub-bins,
                  characteristics, parameters, links).  Bit-identical means bit-identical.
flatten        -- canonical walk of an arbitrary object graph into [(path, token)].
digest_obj     -- sha256 of flatten().
diff_obj       -- first differing paths between two objects (same walk).
"""

import hashlib
import math
import datetime
from collections import OrderedDict

import numpy as np
import pandas as pd

VOLATILE = frozenset({"uid", "created", "modified", "gitinfo", "version", "filename"})


def _h(b: bytes) -> str:
    return hashlib.sha256(b).hexdigest()[:24]


def _arr_token(a: np.ndarray) -> str:
    a = np.asarray(a)
    if a.dtype == object:
        return "objarr[" + ",".join(_scalar_token(x) for x in a.ravel().tolist()) + "]" + str(a.shape)
    return f"arr:{a.dtype.str}:{a.shape}:" + _h(np.ascontiguousarray(a).tobytes())


def _scalar_token(x) -> str:
    if x is None:
        return "None"
    if isinstance(x, (bool, np.bool_)):
        return "b:" + str(bool(x))
    if isinstance(x, (int, np.integer)):
        return "n:" + float(x).hex() if abs(int(x)) < 2**53 else "i:" + str(int(x))
    if isinstance(x, (float, np.floating)):
        x = float(x)
        if math.isnan(x):
            return "n:nan"
        return "n:" + x.hex()
    if isinstance(x, str):
        return "s:" + x
    if isinstance(x, bytes):
        return "bytes:" + _h(x)
    if isinstance(x, (datetime.datetime, datetime.date)):
        return "dt:" + x.isoformat()
    if isinstance(x, complex):
        return "c:" + repr(x)
    return "?:" + type(x).__name__ + ":" + repr(x)


def _is_scalar(x) -> bool:
    return x is None or isinstance(x, (bool, int, float, str, bytes, complex, np.generic, datetime.datetime, datetime.date))


def model_tokens(model, prefix="model"):
    """Tokens for every numeric array held by an atomica Model (used by digest_result)."""
    out = []
    out.append((prefix + ".t", _arr_token(model.t)))
    out.append((prefix + ".dt", _scalar_token(model.dt)))
    for pop in model.pops:
        pp = f"{prefix}.pop[{pop.name}]"
        for comp in pop.comps:
            raw = getattr(comp, "_vals", None)
            if raw is not None and not callable(raw) and hasattr(comp, "flush_link"):
                out.append((f"{pp}.comp[{comp.name}]._vals", _arr_token(raw)))
            out.append((f"{pp}.comp[{comp.name}].vals", _arr_token(comp.vals)))
        for ch in pop.characs:
            out.append((f"{pp}.charac[{ch.name}].vals", _arr_token(ch.vals)))
        for par in pop.pars:
            v = par.vals
            out.append((f"{pp}.par[{par.name}].vals", "None" if v is None else _arr_token(v)))
        seen = {}
        for link in pop.links:
            pname = link.parameter.name if link.parameter is not None else "-"
            src = link.source.name if not isinstance(link.source, tuple) else str(link.source)
            dst = link.dest.name if not isinstance(link.dest, tuple) else str(link.dest)
            dpop = link.dest.pop.name if hasattr(link.dest, "pop") and hasattr(link.dest.pop, "name") else "?"
            key = (src, dpop, dst, pname)
            k = seen.get(key, 0)
            seen[key] = k + 1
            raw = getattr(link, "_vals", None)
            lp = f"{pp}.link[{src}->{dpop}:{dst}|{pname}#{k}]"
            if raw is not None and type(link).__name__ == "TimedLink":
                out.append((lp + "._vals", _arr_token(raw)))
            out.append((lp + ".vals", _arr_token(link.vals)))
    return out


def result_tokens(res):
    return model_tokens(res.model, "model")


def digest_result(res) -> str:
    h = hashlib.sha256()
    for p, t in result_tokens(res):
        h.update(p.encode())
        h.update(b"=")
        h.update(t.encode())
        h.update(b"\n")
    return h.hexdigest()[:32]


def result_arrays(res) -> dict:
    """{path: ndarray} for tolerance comparisons (same keys as result_tokens)."""
    model = res.model
    out = OrderedDict()
    for pop in model.pops:
        pp = f"pop[{pop.name}]"
        for comp in pop.comps:
            raw = getattr(comp, "_vals", None)
            if raw is not None and hasattr(comp, "flush_link"):
                out[f"{pp}.comp[{comp.name}]._vals"] = np.asarray(raw)
            out[f"{pp}.comp[{comp.name}].vals"] = np.asarray(comp.vals)
        for ch in pop.characs:
            out[f"{pp}.charac[{ch.name}].vals"] = np.asarray(ch.vals)
        for par in pop.pars:
            if par.vals is not None:
                out[f"{pp}.par[{par.name}].vals"] = np.asarray(par.vals)
        seen = {}
        for link in pop.links:
            pname = link.parameter.name if link.parameter is not None else "-"
            key = (link.source.name, link.dest.pop.name, link.dest.name, pname)
            k = seen.get(key, 0)
            seen[key] = k + 1
            lp = f"{pp}.link[{key[0]}->{key[1]}:{key[2]}|{pname}#{k}]"
            raw = getattr(link, "_vals", None)
            if raw is not None and type(link).__name__ == "TimedLink":
                out[lp + "._vals"] = np.asarray(raw)
            out[lp + ".vals"] = np.asarray(link.vals)
    return out


def flatten(x, exclude=VOLATILE, path="", out=None, stack=None, sort_tables=False):
    """Canonical walk. Returns list of (path, token)."""
    if out is None:
        out = []
    if stack is None:
        stack = set()
    if _is_scalar(x):
        out.append((path, _scalar_token(x)))
        return out
    if isinstance(x, np.ndarray):
        out.append((path, _arr_token(x)))
        return out
    oid = id(x)
    if oid in stack:
        out.append((path, "<cycle>"))
        return out
    stack.add(oid)
    try:
        tname = type(x).__name__
        if tname == "Model" and hasattr(x, "pops") and hasattr(x, "_vars_by_pop"):
            out.extend((path + "." + p, t) for p, t in model_tokens(x, "model"))
            flatten(x.progset, exclude, path + ".progset", out, stack)
            flatten(x.program_instructions, exclude, path + ".program_instructions", out, stack)
        elif isinstance(x, pd.DataFrame):
            out.append((path + ".<df.shape>", str(x.shape)))
            flatten(list(x.columns), exclude, path + ".<columns>", out, stack)
            flatten(list(x.index), exclude, path + ".<index>", out, stack)
            for ci, c in enumerate(x.columns):
                col = x.iloc[:, ci]
                out.append((f"{path}.col[{c!r}]", "[" + ",".join(_scalar_token(v) if _is_scalar(v) else repr(v) for v in col.tolist()) + "]"))
        elif isinstance(x, pd.Series):
            flatten(list(x.index), exclude, path + ".<index>", out, stack)
            out.append((path + ".<values>", "[" + ",".join(_scalar_token(v) if _is_scalar(v) else repr(v) for v in x.tolist()) + "]"))
        elif isinstance(x, pd.Index):
            flatten(list(x), exclude, path, out, stack)
        elif isinstance(x, dict):
            out.append((path + ".<len>", str(len(x))))
            keys = list(x.keys())
            if not isinstance(x, OrderedDict) and type(x) is not dict and tname not in ("odict", "NDict", "objdict", "defaultdict"):
                pass
            for k in keys:
                if isinstance(k, str) and k in exclude:
                    continue
                flatten(x[k], exclude, f"{path}[{k!r}]", out, stack)
            out.append((path + ".<keys>", repr([k for k in keys if not (isinstance(k, str) and k in exclude)])))
        elif isinstance(x, (list, tuple)):
            out.append((path + ".<len>", f"{'list' if isinstance(x, list) else 'tuple'}{len(x)}"))
            for i, v in enumerate(x):
                flatten(v, exclude, f"{path}[{i}]", out, stack)
        elif isinstance(x, (set, frozenset)):
            items = sorted(x, key=repr)
            out.append((path + ".<set>", repr(items)))
        elif tname == "Spreadsheet" and hasattr(x, "blob"):
            out.append((path + ".blob", "bytes:" + _h(x.blob or b"")))
        elif tname in ("function", "builtin_function_or_method", "method", "type", "module", "partial"):
            out.append((path, f"<{tname}:{getattr(x, '__qualname__', getattr(x, '__name__', '?'))}>"))
        elif hasattr(x, "__slots__") and not hasattr(x, "__dict__"):
            out.append((path + ".<type>", tname))
            for s in x.__slots__:
                if s in exclude:
                    continue
                flatten(getattr(x, s, None), exclude, f"{path}.{s}", out, stack)
        elif hasattr(x, "__dict__"):
            out.append((path + ".<type>", tname))
            for k, v in x.__dict__.items():
                if k in exclude:
                    continue
                flatten(v, exclude, f"{path}.{k}", out, stack)
        else:
            out.append((path, "?:" + tname + ":" + repr(x)))
    finally:
        stack.discard(oid)
    return out


def digest_tokens(tokens) -> str:
    h = hashlib.sha256()
    for p, t in tokens:
        h.update(p.encode())
        h.update(b"=")
        h.update(t.encode())
        h.update(b"\n")
    return h.hexdigest()[:32]


def digest_obj(x, exclude=VOLATILE) -> str:
    return digest_tokens(flatten(x, exclude))


def diff_tokens(ta, tb, limit=5):
    da, db = OrderedDict(ta), OrderedDict(tb)
    diffs = []
    for p, t in da.items():
        if p not in db:
            diffs.append((p, t[:80], "<missing>"))
        elif db[p] != t:
            diffs.append((p, t[:80], db[p][:80]))
        if len(diffs) >= limit:
            return diffs
    for p, t in db.items():
        if p not in da:
            diffs.append((p, "<missing>", t[:80]))
            if len(diffs) >= limit:
                break
    return diffs


def diff_obj(a, b, exclude=VOLATILE, limit=5):
    return diff_tokens(flatten(a, exclude), flatten(b, exclude), limit)


def compare_arrays(a: dict, b: dict, rtol=0.0, atol=0.0, index_from=None, offset_b=0):
    """
    Compare two {path: array} dicts along the last axis.

    index_from: (ia, ib) -- compare a[..., ia:] with b[..., ib:].  rtol/atol==0 -> bit identity
    (NaN == NaN).  Returns list of (path, worst abs diff, index) for mismatches.
    """
    bad = []
    ia, ib = index_from if index_from else (0, 0)
    for p, va in a.items():
        if p not in b:
            bad.append((p, "missing in second", -1))
            continue
        vb = b[p]
        xa = va[..., ia:]
        xb = vb[..., ib:]
        if xa.shape != xb.shape:
            bad.append((p, f"shape {xa.shape} vs {xb.shape}", -1))
            continue
        if rtol == 0.0 and atol == 0.0:
            same = (xa == xb) | (np.isnan(xa) & np.isnan(xb))
        else:
            with np.errstate(invalid="ignore"):
                tol = atol + rtol * np.maximum(1.0, np.maximum(np.abs(xa), np.abs(xb)))
                same = (np.abs(xa - xb) <= tol) | (np.isnan(xa) & np.isnan(xb)) | (xa == xb)
        if not np.all(same):
            idx = np.argwhere(~same)[0]
            with np.errstate(invalid="ignore"):
                worst = float(np.nanmax(np.abs(np.where(same, 0.0, xa - xb))))
            bad.append((p, worst, [int(i) for i in idx]))
    for p in b:
        if p not in a:
            bad.append((p, "missing in first", -1))
    return bad
