"""
Baton-passing cooperative interleaver.

Clients run in real threads, but exactly one holds the baton at any time; the others are parked on
per-thread events.  Who runs next is decided by the chooser (tape) at every pre-emption point, so
real threads only carry the stacks and an interleaving replays exactly.
"""

import threading

_LOCAL = threading.local()


class ClientFailed(Exception):
    pass


class _Client:
    def __init__(self, cid, fn):
        self.cid = cid
        self.fn = fn
        self.go = threading.Event()
        self.done = False
        self.exc = None
        self.thread = None
        self.steps = 0


class Baton:
    def __init__(self, ch, stride=1, watchdog_s=90.0, between=None):
        self.ch = ch
        self.stride = max(1, stride)
        self.watchdog_s = watchdog_s
        self.back = threading.Event()
        self.clients = []
        self.switches = 0
        self.schedule = []  # sequence of client ids, one per resumed slice
        self.between = between  # callable(baton) run by the scheduler between slices (disturbances)
        self._counter = 0

    def add(self, fn):
        c = _Client(len(self.clients), fn)
        self.clients.append(c)
        return c

    def _body(self, c):
        _LOCAL.client = c
        _LOCAL.baton = self
        c.go.wait()
        c.go.clear()
        try:
            c.fn(c)
        except BaseException as e:  # reported by the scheduler
            c.exc = e
        finally:
            c.done = True
            self.back.set()

    def yield_point(self, label=""):
        """Called from client code (or from wrapped library methods) at a pre-emption point."""
        c = getattr(_LOCAL, "client", None)
        if c is None or getattr(_LOCAL, "baton", None) is not self:
            return
        self._counter += 1
        if self._counter % self.stride:
            return
        c.steps += 1
        self.back.set()
        c.go.wait()
        c.go.clear()

    def run(self):
        for c in self.clients:
            c.thread = threading.Thread(target=self._body, args=(c,), daemon=True)
            c.thread.start()
        last = None
        while True:
            alive = [c for c in self.clients if not c.done]
            if not alive:
                break
            c = alive[self.ch.choose("baton.next", len(alive))]
            if last is not None and c.cid != last:
                self.switches += 1
            last = c.cid
            self.schedule.append(c.cid)
            self.back.clear()
            c.go.set()
            if not self.back.wait(self.watchdog_s):
                raise RuntimeError(f"baton watchdog: client {c.cid} did not yield within {self.watchdog_s}s")
            if self.between is not None:
                self.between(self)
        for c in self.clients:
            c.thread.join(5.0)


def current_client():
    return getattr(_LOCAL, "client", None)


def current_baton():
    return getattr(_LOCAL, "baton", None)
