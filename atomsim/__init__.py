"""atomsim -- deterministic simulation with fault injection for atomica (see /verif/DESIGN.md)."""
