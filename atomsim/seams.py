"""
Seams: every replacement of a module / class attribute goes through ``patch`` so that
``restore_all`` (called by the driver after every run, whatever happened) undoes it.
"""

_PATCHES = []


def patch(obj, name, new):
    missing = object()
    old = obj.__dict__.get(name, missing) if hasattr(obj, "__dict__") else getattr(obj, name, missing)
    if old is missing:
        old_attr = getattr(obj, name, missing)
    else:
        old_attr = old
    _PATCHES.append((obj, name, old is not missing, old_attr))
    setattr(obj, name, new)
    return old_attr


def restore_all():
    while _PATCHES:
        obj, name, had_own, old = _PATCHES.pop()
        try:
            if had_own:
                setattr(obj, name, old)
            else:
                try:
                    delattr(obj, name)
                except AttributeError:
                    setattr(obj, name, old)
        except Exception:
            pass


class patched:
    """Context manager: patches applied inside are undone on exit (nested use allowed)."""

    def __enter__(self):
        self.mark = len(_PATCHES)
        return self

    def __exit__(self, *a):
        while len(_PATCHES) > self.mark:
            obj, name, had_own, old = _PATCHES.pop()
            if had_own:
                setattr(obj, name, old)
            else:
                try:
                    delattr(obj, name)
                except AttributeError:
                    setattr(obj, name, old)
        return False
