"""
Driver: seeded batches of simulated runs over worker processes, violation triage against
known findings, tape minimisation, replay files, evidence.

Exit codes: 0 property held on everything explored (KNOWN-FINDING lines allowed);
            1 + "VIOLATION property=<id> replay=<path>" for an unlisted violation;
            2 harness error (never a verdict).
"""

import argparse
import collections
import concurrent.futures as cf
import faulthandler
import hashlib
import importlib
import json
import multiprocessing
import os
import signal
import subprocess
import sys
import time
import traceback

from .chooser import Chooser, RandomSource, TapeSource, derive_seed

VERIF = os.path.dirname(os.path.dirname(os.path.abspath(__file__)))
REPLAYS = os.environ.get("VERIF_REPLAY_DIR") or os.path.join(VERIF, "replays")
EVIDENCE = os.environ.get("VERIF_EVIDENCE_DIR") or os.path.join(VERIF, "evidence")  # overridden only for scratch runs against seeded changes
KNOWN = os.path.join(VERIF, "known_findings.json")
PY = sys.executable
DEFAULT_SEED = 20260926


class HarnessTimeout(Exception):
    pass


def _alarm(signum, frame):
    raise HarnessTimeout("run exceeded its wall-clock cap")


# ---------------------------------------------------------------------------------------
# one simulated run
# ---------------------------------------------------------------------------------------


def reset_process_globals():
    """Bring the interpreter to a canonical state before a run (nothing survives from earlier runs)."""
    import logging
    import random
    import numpy as np
    import atomica as at

    at.logger.setLevel(logging.ERROR)
    np.random.seed(12345)
    random.seed(12345)
    np.seterr(all="warn")
    try:
        import matplotlib.pyplot as plt

        plt.close("all")
    except Exception:
        pass


def execute(check, idx, seed, tier, tape=None, cap_s=600):
    """Run one simulated run of ``check``; returns a JSON-able dict."""
    source = TapeSource(tape) if tape is not None else RandomSource(derive_seed(check.ID, seed, idx))
    ch = Chooser(source)
    t0 = time.time()
    out = {"idx": idx, "seed": seed, "violations": [], "stats": {}, "signature": None, "nontrivial": False, "sample": None, "error": None}
    old = signal.signal(signal.SIGALRM, _alarm)
    signal.setitimer(signal.ITIMER_REAL, cap_s)
    try:
        reset_process_globals()
        res = check.run(ch, idx, tier)
        out.update(res)
    except HarnessTimeout as e:
        out["error"] = f"HarnessTimeout: {e}\n{traceback.format_exc()[-1500:]}"
    except Exception as e:  # harness failure, classified apart from violations
        out["error"] = f"{type(e).__name__}: {e}\n{traceback.format_exc()[-3000:]}"
    finally:
        signal.setitimer(signal.ITIMER_REAL, 0)
        signal.signal(signal.SIGALRM, old)
        try:
            from . import seams

            seams.restore_all()
        except Exception:
            pass
    out["tape"] = ch.tape
    out["wall"] = time.time() - t0
    h = hashlib.sha256()
    h.update(json.dumps(out.get("oplog", out.get("sample")), sort_keys=True, default=str).encode())
    h.update(json.dumps(out.pop("trace", None), sort_keys=True, default=str).encode())
    h.update(json.dumps([e[2] for e in ch.tape]).encode())
    h.update(json.dumps([[v["cls"], v["site"]] for v in out["violations"]]).encode())
    out["oplog_digest"] = h.hexdigest()[:24]
    return out


_CHECK = None
_HISTORY = []  # run indices this worker process has executed so far (hidden state that survives between runs is a C08 matter)


def _worker_task(args):
    idxs, seed, tier, tape = args
    results = []
    for idx in idxs:
        hist = list(_HISTORY)
        r = execute(_CHECK, idx, seed, tier, tape)
        if tape is None:
            _HISTORY.append(idx)
            if r["violations"]:
                r["process_history"] = hist
        if tape is None and not r["violations"] and not r["error"]:
            r.pop("tape", None)  # keep IPC small; tapes are re-derivable from (seed, idx)
            r.pop("oplog", None)
        if r.get("signatures"):
            r["signatures"] = [x if isinstance(x, str) else hashlib.sha256(repr(x).encode()).hexdigest()[:16] for x in r["signatures"]]
        results.append(r)
    return results


def _worker_init():
    faulthandler.enable()


# ---------------------------------------------------------------------------------------
# known findings
# ---------------------------------------------------------------------------------------


def load_known(prop):
    if not os.path.exists(KNOWN):
        return []
    with open(KNOWN) as f:
        data = json.load(f)
    return [e for e in data.get("findings", []) if e.get("property") == prop]


def match_known(known, v):
    for e in known:
        if e.get("status") == "open" and e.get("cls") == v["cls"] and e.get("site") == v["site"]:
            return e
    return None


# ---------------------------------------------------------------------------------------
# minimisation
# ---------------------------------------------------------------------------------------


def _has(res, target):
    return any((v["cls"], v["site"]) == target for v in res["violations"])


def minimise(pool, tier, base, target, budget_s=90.0):
    """Delta-debug the tape of ``base`` (a run result with tape) keeping violation ``target``."""
    t_end = time.time() + budget_s
    best = base
    vals = [e[2] for e in base["tape"]]
    tried = 0

    def attempt(cand_vals):
        nonlocal best, vals, tried
        tried += 1
        r = pool.submit(_worker_task, ([base["idx"]], base["seed"], tier, cand_vals)).result()[0]
        if r["error"] is None and _has(r, target):
            best = r
            vals = [e[2] for e in r["tape"]]
            return True
        return False

    # 1. shortest failing prefix (suffix answered with zeros)
    lo, hi = 0, len(vals)
    while lo < hi and time.time() < t_end:
        mid = (lo + hi) // 2
        if attempt(vals[:mid]):
            hi = min(mid, len(vals))
        else:
            lo = mid + 1
    # 2. zero blocks
    size = max(1, len(vals) // 2)
    while size >= 1 and time.time() < t_end:
        i = 0
        while i < len(vals) and time.time() < t_end:
            if any(vals[i : i + size]):
                cand = vals[:i] + [0] * min(size, len(vals) - i) + vals[i + size :]
                attempt(cand)
            i += size
        size //= 2
    # 3. lower individual values
    i = 0
    while i < len(vals) and time.time() < t_end:
        v = vals[i]
        if v > 1:
            for c in (1, v // 2):
                if c < v and attempt(vals[:i] + [c] + vals[i + 1 :]):
                    break
        i += 1
    # strip trailing zeros
    while vals and vals[-1] == 0:
        vals = vals[:-1]
    if time.time() < t_end:
        attempt(vals)
    return best, tried


# ---------------------------------------------------------------------------------------
# batch
# ---------------------------------------------------------------------------------------


def repo_head():
    try:
        head = subprocess.run(["git", "-C", os.environ.get("ATOMICA_REPO", "/repo"), "rev-parse", "HEAD"], capture_output=True, text=True, timeout=20).stdout.strip()
        dirty = subprocess.run(["git", "-C", os.environ.get("ATOMICA_REPO", "/repo"), "status", "--porcelain", "--untracked-files=no"], capture_output=True, text=True, timeout=20).stdout.strip()
        return head, bool(dirty)
    except Exception:
        return "unknown", True


def write_replay(check, res, target, note=""):
    os.makedirs(REPLAYS, exist_ok=True)
    head, dirty = repo_head()
    v = [x for x in res["violations"] if (x["cls"], x["site"]) == target][0]
    name = f"{check.ID}_{target[0]}_{hashlib.sha256((target[1] + str(res['seed']) + str(res['idx'])).encode()).hexdigest()[:8]}.json"
    path = os.path.join(REPLAYS, name)
    with open(path, "w") as f:
        json.dump(
            {
                "property": check.ID,
                "check_version": getattr(check, "VERSION", 1),
                "seed": res["seed"],
                "run_index": res["idx"],
                "tier": res.get("tier", "quick"),
                "tape": res["tape"],
                "violation": v,
                "all_violations": res["violations"],
                "oplog": res.get("oplog"),
                "sample": res.get("sample"),
                "oplog_digest": res["oplog_digest"],
                "process_history": res.get("process_history_needed"),
                "repo_head": head,
                "repo_dirty": dirty,
                "note": note,
            },
            f,
            indent=1,
            default=str,
        )
    return path


def run_batch(check, tier, seed, nproc=None, quiet=False):
    global _CHECK
    _CHECK = check
    t_start = time.time()
    budget = check.budget(tier)
    nruns, wall_cap = budget["runs"], budget["wall"]
    chunk = budget.get("chunk", 1)
    nproc = nproc or int(os.environ.get("VERIF_NPROC", min(16, os.cpu_count() or 1)))
    if hasattr(check, "prepare"):
        check.prepare(tier)
    known = load_known(check.ID)

    ctx = multiprocessing.get_context("fork")
    results = []
    errors = []
    stats = collections.Counter()
    signatures = set()
    nontrivial_sigs = set()
    samples = []
    viol_runs = {}  # (cls, site) -> first run result
    viol_counts = collections.Counter()

    with cf.ProcessPoolExecutor(max_workers=nproc, mp_context=ctx, initializer=_worker_init) as pool:
        pending = set()
        next_idx = 0
        done_runs = 0

        def submit_more():
            nonlocal next_idx
            while len(pending) < 2 * nproc and next_idx < nruns and (time.time() - t_start) < wall_cap:
                idxs = list(range(next_idx, min(nruns, next_idx + chunk)))
                next_idx += len(idxs)
                pending.add(pool.submit(_worker_task, (idxs, seed, tier, None)))

        submit_more()
        while pending:
            done, _ = cf.wait(pending, timeout=600, return_when=cf.FIRST_COMPLETED)
            if not done:
                errors.append("driver: no worker finished a task within 600 s")
                break
            for fut in done:
                pending.discard(fut)
                try:
                    rs = fut.result()
                except Exception as e:
                    errors.append(f"worker crashed: {type(e).__name__}: {e}")
                    continue
                for r in rs:
                    done_runs += 1
                    if r["error"]:
                        errors.append(f"run {r['idx']}: {r['error']}")
                        continue
                    for k, v in (r.get("stats") or {}).items():
                        stats[k] += v
                    if r.get("signature") is not None:
                        signatures.add(r["signature"])
                        if r.get("nontrivial"):
                            nontrivial_sigs.add(r["signature"])
                    for s_ in r.get("signatures") or []:  # runs that contain many cases (enumerations)
                        signatures.add(s_)
                        nontrivial_sigs.add(s_)
                    if len(samples) < 4 and r.get("sample") is not None:
                        samples.append(r["sample"])
                    for v in r["violations"]:
                        key = (v["cls"], v["site"])
                        viol_counts[key] += 1
                        if key not in viol_runs:
                            r["tier"] = tier
                            viol_runs[key] = r
            submit_more()

        # ---- triage ---------------------------------------------------------------
        new_violations = []
        known_hits = []
        for key, r in sorted(viol_runs.items()):
            v = [x for x in r["violations"] if (x["cls"], x["site"]) == key][0]
            e = match_known(known, v)
            if e is not None:
                known_hits.append((e, v, viol_counts[key]))
                continue
            new_violations.append((key, r))

        replay_paths = []
        for key, r in new_violations[:6]:
            if "tape" not in r:
                continue
            try:
                best, tried = minimise(pool, tier, r, key, budget_s=budget.get("minimise_s", 60))
            except Exception as e:
                best, tried = r, 0
                errors.append(f"minimiser failed: {type(e).__name__}: {e}")
            best["tier"] = tier
            path = write_replay(check, best, key, note=f"minimised from {len(r['tape'])} to {len(best['tape'])} choices in {tried} attempts")
            replay_paths.append((key, path, best))

    # ---- fresh-process verification of replay files -------------------------------------
    final_violations = []
    for key, path, best in replay_paths:
        env = dict(os.environ, PYTHONHASHSEED="0", MPLBACKEND="agg")
        p = subprocess.run([PY, "-m", "atomsim.check", check.ID, "--replay", path, "--quiet"], cwd=VERIF, env=env, capture_output=True, text=True, timeout=1800)
        if p.returncode == 1:
            final_violations.append((key, path))
            continue
        # Not reproducible from the tape alone.  Before calling it harness nondeterminism, test whether the violation needs the
        # HISTORY of the process that found it (earlier runs executed by the same worker): state that survives between runs
        # inside one process is exactly what C08-type properties forbid, and it replays exactly once the history is replayed too.
        first = viol_runs.get(key, {})
        hist = first.get("process_history") or []
        reproduced = False
        for k_ in [n_ for n_ in (4, 16, len(hist)) if n_ <= len(hist)] if hist else []:
            with open(path) as f:
                rep = json.load(f)
            # the un-minimised tape of the run that found it (minimisation ran in workers that had a history of their own)
            rep["tape"] = first["tape"]
            rep["process_history"] = hist[-k_:]
            rep["note"] = (rep.get("note") or "") + f" | needs the process history: the {k_} runs executed before it by the same worker process"
            with open(path, "w") as f:
                json.dump(rep, f, indent=1, default=str)
            p2 = subprocess.run([PY, "-m", "atomsim.check", check.ID, "--replay", path, "--quiet"], cwd=VERIF, env=env, capture_output=True, text=True, timeout=3000)
            if p2.returncode == 1:
                reproduced = True
                break
        if reproduced:
            final_violations.append((key, path))
        else:
            errors.append(f"HARNESS-NONDETERMINISM: replay of {path} did not reproduce {key} in a fresh interpreter (rc={p.returncode}), with or without the finder's process history: {p.stdout[-500:]} {p.stderr[-500:]}")

    wall = time.time() - t_start
    # ---- determinism of the simulator itself (reduced in quick, full in thorough) -----------
    selftest = None
    try:
        n_self = budget.get("selftest", 48 if tier == "thorough" else 6)
        if n_self:
            selftest = determinism_selftest(check, tier, seed, n_self, nproc, fresh=(tier == "thorough"))
            if selftest["mismatches"]:
                errors.append(f"HARNESS-NONDETERMINISM: determinism self-test found {len(selftest['mismatches'])} mismatching runs: {selftest['mismatches'][:2]}")
    except Exception as e:
        errors.append(f"determinism self-test failed to run: {type(e).__name__}: {e}")
    # ---- extra (thorough-tier self tests etc.) ---------------------------------------
    extra = {}
    if hasattr(check, "extra"):
        try:
            extra = check.extra(tier, seed) or {}
            for msg in extra.pop("errors", []):
                errors.append(msg)
        except Exception as e:
            errors.append(f"extra() failed: {type(e).__name__}: {e}\n{traceback.format_exc()[-1500:]}")
    wall = time.time() - t_start

    # ---- evidence ------------------------------------------------------------------
    evaluations = int(stats.get("evaluations", done_runs))
    cov = {
        "evaluations": max(evaluations, 0),
        "distinct_nontrivial": len(nontrivial_sigs),
        "rule": check.RULE,
        "samples": samples,
        "runs": done_runs,
        "runs_requested": nruns,
        "distinct_signatures": len(signatures),
        "runs_per_hour": round(done_runs / max(wall, 1e-9) * 3600.0, 1),
        "simulated_seconds": float(stats.pop("sim_seconds_x1000", 0)) / 1000.0,
        "model_years_integrated": float(stats.pop("model_years_x1000", 0)) / 1000.0,
        "faults_fired": {k[6:]: v for k, v in sorted(stats.items()) if k.startswith("fault:")},
        "probes": {k[6:]: v for k, v in sorted(stats.items()) if k.startswith("probe:")},
        "counters": {k: v for k, v in sorted(stats.items()) if not k.startswith(("fault:", "probe:"))},
        "components": getattr(check, "COMPONENTS", {}),
        "worker_processes": nproc,
        "known_findings_hit": [{"cls": e["cls"], "site": e["site"], "runs": n} for e, v, n in known_hits],
        "harness_errors": len(errors),
        "exhaustive": False,
        "determinism_selftest": None if selftest is None else {"runs": selftest["runs"], "passes": selftest["passes"], "mismatches": len(selftest["mismatches"]), "other_hashseed": selftest.get("other_hashseed")},
    }
    try:
        from . import corpus

        cov["corpus_skipped"] = corpus.skipped()
    except Exception:
        pass
    cov.update(extra)
    ev = {
        "property_id": check.ID,
        "tier": tier,
        "seed": int(seed),
        "level": check.LEVEL,
        "coverage": cov,
        "assumptions": list(getattr(check, "ASSUMPTIONS", [])),
        "wall_s": round(wall, 2),
        "violations": len(final_violations),
    }
    os.makedirs(EVIDENCE, exist_ok=True)
    with open(os.path.join(EVIDENCE, f"{check.ID}.json"), "w") as f:
        json.dump(ev, f, indent=1, default=str)

    # ---- report --------------------------------------------------------------------
    if not quiet:
        print(f"[{check.ID}] tier={tier} seed={seed} runs={done_runs}/{nruns} wall={wall:.1f}s distinct_nontrivial={len(nontrivial_sigs)} runs/h={cov['runs_per_hour']}")
        if cov["faults_fired"]:
            print(f"[{check.ID}] faults fired: {cov['faults_fired']}")
        if cov["probes"]:
            print(f"[{check.ID}] probes: {cov['probes']}")
    for e, v, n in known_hits:
        print(f"KNOWN-FINDING: property={check.ID} {e['cls']} at {e['site']}: {e.get('description', '')} [{n} runs]")
    for key, path in final_violations:
        print(f"VIOLATION property={check.ID} replay={path}")
        v = None
        for k2, p2, b2 in replay_paths:
            if k2 == key:
                v = [x for x in b2["violations"] if (x["cls"], x["site"]) == key][0]
        if v:
            print(f"  class={key[0]} site={key[1]} detail={json.dumps(v.get('detail'), default=str)[:600]}")
    if errors:
        print(f"HARNESS-ERROR: {len(errors)} harness errors; first:\n{errors[0][:3000]}", file=sys.stderr)
    if final_violations:
        return 1
    if errors:
        return 2
    if done_runs == 0:
        print("HARNESS-ERROR: no runs completed", file=sys.stderr)
        return 2
    return 0


def _digest_task(args):
    idxs, seed, tier = args
    out = {}
    for idx in idxs:
        r = execute(_CHECK, idx, seed, tier, None)
        out[idx] = r["oplog_digest"] if not r["error"] else "ERROR:" + r["error"][:200]
    return out


def determinism_selftest(check, tier, seed, n, nproc, fresh=True):
    """
    The same (seed, index) must give the same run, whatever process executes it and whatever ran before:
    pass A = indices ascending over the worker pool, pass B = descending with another chunking, pass C = a fresh
    interpreter executing them serially.  Digest = tape + op log + numeric trace + violations.
    """
    global _CHECK
    _CHECK = check
    ctx = multiprocessing.get_context("fork")
    idxs = list(range(n))
    res = {"runs": n, "passes": [], "mismatches": []}
    with cf.ProcessPoolExecutor(max_workers=nproc, mp_context=ctx, initializer=_worker_init) as pool:
        A = {}
        for d in pool.map(_digest_task, [([i], seed, tier) for i in idxs]):
            A.update(d)
        B = {}
        rev = idxs[::-1]
        for d in pool.map(_digest_task, [(rev[i : i + 3], seed, tier) for i in range(0, n, 3)]):
            B.update(d)
    res["passes"] += ["pool_ascending_chunk1", "pool_descending_chunk3"]
    for i in idxs:
        if A[i] != B[i]:
            res["mismatches"].append({"idx": i, "A": A[i], "B": B[i], "pass": "same interpreter, other worker/order"})
    if fresh:
        # informational pass D: another hash seed (set / dict-of-object iteration orders change); a difference here is a
        # property of the library worth knowing about, not a harness failure, so it is reported but does not fail the run
        try:
            envd = dict(os.environ, PYTHONHASHSEED="4242", ATOMSIM_KEEP_HASHSEED="1", MPLBACKEND="agg", VERIF_SEED=str(seed))
            nd = min(n, 16)
            pd_ = subprocess.run([PY, "-m", "atomsim.check", check.ID, "--digests", str(nd), "--tier", tier], cwd=VERIF, env=envd, capture_output=True, text=True, timeout=3000)
            lined = [l for l in pd_.stdout.splitlines() if l.startswith("DIGESTS")]
            if lined:
                D = {int(k): v for k, v in json.loads(lined[0][7:]).items()}
                res["other_hashseed"] = {"runs": nd, "differing": [i for i in range(nd) if A[i] != D.get(i)]}
        except Exception as e:
            res["other_hashseed"] = {"error": str(e)[:200]}
        env = dict(os.environ, PYTHONHASHSEED="0", MPLBACKEND="agg", VERIF_SEED=str(seed))
        p = subprocess.run([PY, "-m", "atomsim.check", check.ID, "--digests", str(n), "--tier", tier], cwd=VERIF, env=env, capture_output=True, text=True, timeout=3000)
        line = [l for l in p.stdout.splitlines() if l.startswith("DIGESTS")]
        if not line:
            res["mismatches"].append({"pass": "fresh interpreter", "error": p.stderr[-500:]})
        else:
            C = {int(k): v for k, v in json.loads(line[0][7:]).items()}
            res["passes"].append("fresh_interpreter_serial")
            for i in idxs:
                if A[i] != C.get(i):
                    res["mismatches"].append({"idx": i, "A": A[i], "C": C.get(i), "pass": "fresh interpreter"})
    res["errors"] = sum(1 for v in A.values() if v.startswith("ERROR"))
    return res


def run_replay(check, path, quiet=False):
    global _CHECK
    _CHECK = check
    with open(path) as f:
        rep = json.load(f)
    if hasattr(check, "prepare"):
        check.prepare(rep.get("tier", "quick"))
    tape = [e[2] for e in rep["tape"]]
    for h_idx in rep.get("process_history") or []:
        execute(check, h_idx, rep["seed"], rep.get("tier", "quick"), None)  # earlier runs of the finder's process, in order
    r = execute(check, rep["run_index"], rep["seed"], rep.get("tier", "quick"), tape)
    target = (rep["violation"]["cls"], rep["violation"]["site"])
    if r["error"]:
        print(f"HARNESS-ERROR during replay: {r['error']}", file=sys.stderr)
        return 2
    if _has(r, target):
        same = r["oplog_digest"] == rep.get("oplog_digest")
        v = [x for x in r["violations"] if (x["cls"], x["site"]) == target][0]
        print(f"VIOLATION property={check.ID} replay={path}")
        if not quiet:
            print(f"  reproduced class={target[0]} site={target[1]} oplog_digest_match={same}")
            print(f"  detail={json.dumps(v.get('detail'), default=str)[:1500]}")
        return 1
    if not quiet:
        print(f"replay of {path}: violation {target} not reproduced on this tree (violations now: {[(v['cls'], v['site']) for v in r['violations']]})")
    return 0


def main(argv=None):
    ap = argparse.ArgumentParser()
    ap.add_argument("prop")
    ap.add_argument("--tier", default=os.environ.get("VERIF_TIER", "quick"), choices=["quick", "thorough"])
    ap.add_argument("--replay", default=None)
    ap.add_argument("--quiet", action="store_true")
    ap.add_argument("--nproc", type=int, default=None)
    ap.add_argument("--runs", type=int, default=None)
    ap.add_argument("--digests", type=int, default=None, help="print run digests of indices 0..N-1 executed serially (determinism self-test helper)")
    ap.add_argument("--selftest", type=int, default=None, help="run the determinism self-test on N indices and exit")
    args = ap.parse_args(argv)

    if (os.environ.get("PYTHONHASHSEED") != "0" and not os.environ.get("ATOMSIM_KEEP_HASHSEED")) or os.environ.get("MPLBACKEND") != "agg":
        env = dict(os.environ, PYTHONHASHSEED="0", MPLBACKEND="agg")
        os.execve(PY, [PY, "-m", "atomsim.check"] + (argv if argv is not None else sys.argv[1:]), env)

    sys.path.insert(0, VERIF)
    faulthandler.enable()
    seed = int(os.environ.get("VERIF_SEED", DEFAULT_SEED))
    check = importlib.import_module(f"checks.{args.prop.lower()}")
    if args.runs is not None:
        orig = check.budget
        check.budget = lambda tier, _o=orig, _n=args.runs: dict(_o(tier), runs=_n)
    if args.digests is not None:
        global _CHECK
        _CHECK = check
        if hasattr(check, "prepare"):
            check.prepare(args.tier)
        print("DIGESTS" + json.dumps(_digest_task((list(range(args.digests)), seed, args.tier))))
        return 0
    if args.selftest is not None:
        if hasattr(check, "prepare"):
            check.prepare(args.tier)
        r = determinism_selftest(check, args.tier, seed, args.selftest, args.nproc or 16)
        print(json.dumps(r, indent=1)[:3000])
        return 0 if not r["mismatches"] and not r["errors"] else 2
    if args.replay:
        return run_replay(check, args.replay, args.quiet)
    return run_batch(check, args.tier, seed, nproc=args.nproc, quiet=args.quiet)
