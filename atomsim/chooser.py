"""
The choice tape: every decision of a simulated run goes through a Chooser.

RandomSource(seed) draws from a PRNG and records (label, arity, value); TapeSource(tape)
replays a recorded / minimised tape and answers 0 ("the simplest choice") once the tape is
exhausted or a recorded value does not fit the arity now requested, so that every shortened
tape is still a valid run.  Logging never draws.
"""

import hashlib
import random

REAL_RES = 1 << 30  # resolution of real-valued draws (stored as integers so tapes are JSON-exact)


def derive_seed(*parts) -> int:
    h = hashlib.sha256(("|".join(str(p) for p in parts)).encode()).digest()
    return int.from_bytes(h[:8], "big")


class RandomSource:
    def __init__(self, seed: int):
        self.seed = seed
        self.rng = random.Random(seed)

    def draw(self, label: str, n: int) -> int:
        return self.rng.randrange(n)


class TapeSource:
    def __init__(self, tape):
        self.tape = list(tape)
        self.pos = 0
        self.misfits = 0

    def draw(self, label: str, n: int) -> int:
        if self.pos < len(self.tape):
            entry = self.tape[self.pos]
            self.pos += 1
            v = entry[2] if isinstance(entry, (list, tuple)) else entry
            if 0 <= v < n:
                return v
            self.misfits += 1
            return 0
        return 0


class Chooser:
    """All decisions of a run. ``tape`` is the record of what was decided: [label, arity, value]."""

    def __init__(self, source):
        self.source = source
        self.tape = []
        self.marks = []  # (tape position, mark label): operation boundaries for the minimiser

    # -- primitive ------------------------------------------------------------------
    def choose(self, label: str, n: int) -> int:
        """An integer in [0, n). 0 is by convention the simplest alternative."""
        n = max(1, int(n))
        v = self.source.draw(label, n)  # always consumes one tape entry, so record and replay stay aligned
        self.tape.append([label, n, v])
        return v

    # -- derived --------------------------------------------------------------------
    def flip(self, label: str, p: float = 0.5) -> bool:
        """True with probability p; tape value 0 means False (the 'nothing happens' branch)."""
        k = self.choose(label, REAL_RES)
        # map so that 0 -> False: true iff k >= (1-p)*RES
        return k >= (1.0 - p) * REAL_RES

    def uniform(self, label: str, lo: float, hi: float) -> float:
        k = self.choose(label, REAL_RES)
        return lo + (hi - lo) * (k / REAL_RES)

    def loguniform(self, label: str, lo: float, hi: float) -> float:
        import math

        k = self.choose(label, REAL_RES)
        return math.exp(math.log(lo) + (math.log(hi) - math.log(lo)) * (k / REAL_RES))

    def randint(self, label: str, lo: int, hi: int) -> int:
        """Integer in [lo, hi] inclusive; lo is the simplest."""
        return lo + self.choose(label, hi - lo + 1)

    def pick(self, label: str, seq):
        seq = list(seq)
        return seq[self.choose(label, len(seq))]

    def subset(self, label: str, seq, p: float = 0.5):
        return [x for i, x in enumerate(seq) if self.flip(f"{label}[{i}]", p)]

    def shuffle(self, label: str, seq):
        seq = list(seq)
        out = []
        i = 0
        while seq:
            out.append(seq.pop(self.choose(f"{label}#{i}", len(seq))))
            i += 1
        return out

    def mark(self, label: str):
        self.marks.append((len(self.tape), label))

    def values(self):
        return [e[2] for e in self.tape]


def random_chooser(*seed_parts) -> Chooser:
    return Chooser(RandomSource(derive_seed(*seed_parts)))


def tape_chooser(tape) -> Chooser:
    return Chooser(TapeSource(tape))
