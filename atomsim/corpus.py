"""
Workload corpus: every library / test project that loads in this environment.

Projects are parsed from /repo's working tree once per check invocation (in the parent, before
the driver forks its workers) and handed out as fresh unpickled copies, so no run can observe
what another run did to "its" project.  Nothing is cached across invocations.
"""

import logging
import os
import pickle
import warnings
from pathlib import Path

warnings.filterwarnings("ignore")

import atomica as at  # noqa: E402
import sciris as sc  # noqa: E402
import numpy as np  # noqa: E402

at.logger.setLevel(logging.ERROR)

REPO = Path(os.environ.get("ATOMICA_REPO", "/repo"))
LIB = REPO / "atomica" / "library"
TESTS = REPO / "tests"

# (name, framework, databook, progbook or None, sim_dt or None) -- simplest first
_SPECS = [
    ("udt", LIB / "udt_framework.xlsx", LIB / "udt_databook.xlsx", LIB / "udt_progbook.xlsx", None),
    ("usdt", LIB / "usdt_framework.xlsx", LIB / "usdt_databook.xlsx", LIB / "usdt_progbook.xlsx", None),
    ("tb_simple", LIB / "tb_simple_framework.xlsx", LIB / "tb_simple_databook.xlsx", LIB / "tb_simple_progbook.xlsx", None),
    ("udt_dyn", LIB / "udt_dyn_framework.xlsx", LIB / "udt_dyn_databook.xlsx", LIB / "udt_dyn_progbook.xlsx", None),
    ("hiv", LIB / "hiv_framework.xlsx", LIB / "hiv_databook.xlsx", LIB / "hiv_progbook.xlsx", None),
    ("hypertension", LIB / "hypertension_framework.xlsx", LIB / "hypertension_databook.xlsx", LIB / "hypertension_progbook.xlsx", None),
    ("dt", LIB / "dt_framework.xlsx", LIB / "dt_databook.xlsx", None, None),
    ("service", LIB / "service_framework.xlsx", LIB / "service_databook.xlsx", None, None),
    ("timed_test", TESTS / "timed_test_framework.xlsx", TESTS / "timed_test_databook.xlsx", None, None),
    ("uncertainty", TESTS / "test_uncertainty_framework.xlsx", TESTS / "test_uncertainty_databook.xlsx", TESTS / "test_uncertainty_high_progbook.xlsx", None),
    ("uncertainty_low", TESTS / "test_uncertainty_framework.xlsx", TESTS / "test_uncertainty_databook.xlsx", TESTS / "test_uncertainty_low_progbook.xlsx", None),
    ("tb_simple_dyn", LIB / "tb_simple_dyn_framework.xlsx", LIB / "tb_simple_dyn_databook.xlsx", LIB / "tb_simple_dyn_progbook.xlsx", None),
    ("hiv_dyn", LIB / "hiv_dyn_framework.xlsx", LIB / "hiv_dyn_databook.xlsx", LIB / "hiv_dyn_progbook.xlsx", None),
    ("hypertension_dyn", LIB / "hypertension_dyn_framework.xlsx", LIB / "hypertension_dyn_databook.xlsx", LIB / "hypertension_dyn_progbook.xlsx", None),
    ("diabetes", LIB / "diabetes_framework.xlsx", LIB / "diabetes_databook.xlsx", LIB / "diabetes_progbook.xlsx", None),
    ("cervicalcancer", LIB / "cervicalcancer_framework.xlsx", LIB / "cervicalcancer_databook.xlsx", LIB / "cervicalcancer_progbook.xlsx", None),
    ("timed_transfer", TESTS / "timed_test_transfer_framework.xlsx", TESTS / "timed_test_transfer_databook.xlsx", None, None),
    ("timed_transfer_2", TESTS / "timed_test_transfer_framework.xlsx", TESTS / "timed_test_transfer_databook_2.xlsx", None, None),
    ("timed_transfer_3", TESTS / "timed_test_transfer_framework.xlsx", TESTS / "timed_test_transfer_databook_3.xlsx", None, None),
    # databook "NEW": built by ProjectData.new() from the framework's default values (as the repository's own tests do)
    ("timed_eligibility", TESTS / "timed_test_eligibility_framework.xlsx", "NEW", None, None),
    ("timed_indirect", TESTS / "timed_test_indirect_framework.xlsx", "NEW", None, None),
    ("timed_indirect2", TESTS / "timed_test_indirect2_framework.xlsx", "NEW", None, None),
    ("derivative", TESTS / "framework_derivative_test.xlsx", "NEW", None, None),
    ("par_min_max", TESTS / "framework_par_min_max_test.xlsx", TESTS / "par_min_max_databook.xlsx", None, None),
    ("no_compartment", TESTS / "test_no_compartment_framework.xlsx", TESTS / "test_no_compartment_databook.xlsx", TESTS / "test_no_compartment_progbook.xlsx", None),
    ("timed_tb", TESTS / "timed_tb_framework.xlsx", TESTS / "timed_tb_databook.xlsx", None, None),
    ("tb", LIB / "tb_framework.xlsx", LIB / "tb_databook.xlsx", LIB / "tb_progbook.xlsx", 0.5),
    # binary project files written by old atomica versions: loaded through Project.load (migration on load)
    ("legacy_scen", TESTS / "migration_test_with_scenarios.prj", "PRJ", None, 0.5),
    ("legacy_nores", TESTS / "migration_test_without_result.prj", "PRJ", None, 0.5),
]

HEAVY = {"tb", "timed_tb", "legacy_scen", "legacy_nores"}
N_GENERATED = 24


class Entry:
    def __init__(self, name, blob, meta):
        self.name = name
        self.blob = blob
        self.meta = meta

    def project(self):
        """A fresh, private copy of the project."""
        return pickle.loads(self.blob)


_CORPUS = None
_SKIPPED = {}


def _describe(P):
    fw = P.framework
    comps = fw.comps
    meta = {
        "pops": len(P.data.pops),
        "comps": int(len(comps)),
        "has_progset": len(P.progsets) > 0,
        "timed": bool((comps["duration group"].fillna("").astype(str) != "").any()) if "duration group" in comps else False,
        "junction": bool((comps["is junction"] == "y").any()),
        "source": bool((comps["is source"] == "y").any()),
        "derivative": bool((fw.pars["is derivative"] == "y").any()),
        "transfers": len(P.data.transfers),
        "interactions": len(P.data.interpops),
        "sim_start": float(P.settings.sim_start),
        "sim_end": float(P.settings.sim_end),
        "sim_dt": float(P.settings.sim_dt),
    }
    fcn = fw.pars["function"].dropna().astype(str)
    meta["stochastic"] = bool(fcn.str.contains("rand").any())
    return meta


def load(names=None, include_heavy=True, quiet=True):
    """Parse the corpus (once). Returns dict name -> Entry in 'simplest first' order."""
    global _CORPUS
    if _CORPUS is None:
        _CORPUS = {}
        for name, fwp, dbp, pbp, dt in _SPECS:
            try:
                if dbp == "PRJ":
                    P = at.Project.load(str(fwp))
                    P.name = name
                    P.results.clear()
                    P.settings.update_time_vector(end=min(P.settings.sim_end, P.settings.sim_start + 12), dt=dt)
                elif dbp == "NEW":
                    F = at.ProjectFramework(str(fwp))
                    D = at.ProjectData.new(framework=F, tvec=np.array([2018.0]), pops=1, transfers=0)
                    P = at.Project(name=name, framework=F, databook=D.to_spreadsheet(), do_run=False)
                    P.settings.update_time_vector(start=2018, end=2023, dt=0.25)
                else:
                    if not (Path(fwp).exists() and Path(dbp).exists()):
                        raise FileNotFoundError(str(fwp if not Path(fwp).exists() else dbp))
                    P = at.Project(name=name, framework=str(fwp), databook=str(dbp), do_run=False)
                if dt and dbp != "PRJ":
                    P.settings.sim_dt = dt
                if pbp is not None and Path(pbp).exists():
                    P.load_progbook(str(pbp))
                # one smoke run so that entries that cannot simulate are left out
                P.run_sim(P.parsets[0], store_results=False)
                meta = _describe(P)
                if meta["stochastic"]:
                    raise RuntimeError("framework uses random functions (excluded by C08)")
                _CORPUS[name] = Entry(name, pickle.dumps(P), meta)
            except Exception as e:  # environment-dependent: recorded, never hard-coded
                _SKIPPED[name] = f"{type(e).__name__}: {str(e)[:120]}"
        # generated models: a fixed family of specs (drawn from a fixed tape seed, so that every interpreter builds the same)
        if os.environ.get("ATOMSIM_NO_GENERATED") != "1":
            from .chooser import random_chooser
            from . import modelgen

            for i in range(N_GENERATED):
                name = f"gen{i:02d}"
                try:
                    spec = modelgen.draw_spec(random_chooser("corpus-generated-model", i))
                    # make sure the rarer structural features are all present in the family
                    spec["junction"] = ["none", "plain", "residual"][i % 3]
                    spec["timed"] = bool((i // 3) % 2)
                    spec["npops"] = 1 + (i % 3 if i % 2 else (i // 2) % 3)
                    if spec["npops"] == 1:
                        spec["transfer"] = False
                    if i % 4 == 1:
                        spec["nprogs"] = max(spec["nprogs"], 2)
                    if i % 5 == 1:
                        spec["nprogs"] = 3
                        spec["explicit_interaction"] = True
                        spec["empty_treated"] = bool(i % 2)  # half of the three-program models start with nobody treated
                    P = modelgen.build_project(spec, name=name)
                    P.run_sim(P.parsets[0], store_results=False)
                    meta = _describe(P)
                    meta["generated_spec"] = spec
                    _CORPUS[name] = Entry(name, pickle.dumps(P), meta)
                except Exception as e:
                    _SKIPPED[name] = f"{type(e).__name__}: {str(e)[:120]}"
    out = {k: v for k, v in _CORPUS.items() if (include_heavy or k not in HEAVY)}
    if names is not None:
        out = {k: v for k, v in out.items() if k in names}
    return out


def generated_names():
    return [k for k in (_CORPUS or {}) if k.startswith("gen")]


def skipped():
    return dict(_SKIPPED)


def default_instructions(P, entry=None, start=None):
    """Program instructions starting a few years into the simulation (or at ``start``)."""
    if start is None:
        start = float(np.floor(P.settings.sim_start + 0.4 * (P.settings.sim_end - P.settings.sim_start)))
    return at.ProgramInstructions(start_year=start)
