"""
Simulated fork pool.

SimProc   -- the process-global state that fork duplicates and the properties care about
             (numpy global RandomState, python ``random`` state, atomica logger level, pid, entropy).
SimPool   -- drop-in for multiprocessing.pool.Pool / multiprocess.Pool: creation forks N children
             from the parent's state at that instant, tasks are really pickled, a seeded scheduler
             decides which idle worker dequeues the next task and in which order results complete.
SimWorld  -- owns the processes, the entropy source, the np.random seam and the per-sample draw log.

Only one SimProc is "entered" at a time: forked workers share no memory, a job's only interaction
with the rest of the system is the state of its worker process, its pickled arguments and its
pickled result.
"""

import collections
import hashlib
import itertools
import logging
import os
import pickle
import random as pyrandom

import numpy as np

from . import seams

_WORLD = None


def world():
    return _WORLD


class SimEntropy:
    """Deterministic stand-in for OS entropy: distinct per simulated process and per call."""

    def __init__(self, seed: int):
        self.seed = seed
        self.counters = collections.Counter()

    def bytes(self, proc_id: int, n: int) -> bytes:
        k = self.counters[proc_id]
        self.counters[proc_id] += 1
        out = b""
        i = 0
        while len(out) < n:
            out += hashlib.sha256(f"entropy|{self.seed}|{proc_id}|{k}|{i}".encode()).digest()
            i += 1
        return out[:n]

    def uint32(self, proc_id: int, n: int = 1):
        b = self.bytes(proc_id, 4 * n)
        return [int.from_bytes(b[4 * i : 4 * i + 4], "little") for i in range(n)]


RNG_TYPES = (np.random.Generator, np.random.RandomState, np.random.BitGenerator, pyrandom.Random)


def scan_rng_bindings(prefixes=("atomica",)):
    """
    Module-level (and class-level) names of the library under test that are bound to random generator objects.
    A real fork duplicates them with the rest of the address space; the simulator duplicates exactly these
    (bindings AND objects, aliasing preserved) per simulated process.
    """
    import sys

    out = []
    glob = np.random.mtrand._rand
    for modname, mod in list(sys.modules.items()):
        if mod is None or not any(modname == p or modname.startswith(p + ".") for p in prefixes):
            continue
        try:
            items = list(vars(mod).items())
        except TypeError:
            continue
        for k, v in items:
            if isinstance(v, RNG_TYPES) and v is not glob:
                out.append((mod, k))
            elif isinstance(v, type) and getattr(v, "__module__", None) == modname:
                for ck, cv in list(vars(v).items()):
                    if isinstance(cv, RNG_TYPES) and cv is not glob:
                        out.append((v, ck))
    return out


class SimProc:
    def __init__(self, world, pid, identity=()):
        self.world = world
        self.pid = pid
        self.identity = identity
        self.name = "MainProcess" if not identity else f"ForkPoolWorker-{identity[0]}"
        self.np_state = None
        self.py_state = None
        self.log_level = None
        self.rng_objs = {}  # (holder, attribute name) -> generator object owned by this process
        self.tasks_run = 0

    def capture(self):
        import atomica as at

        self.np_state = np.random.mtrand._rand.get_state()
        self.py_state = pyrandom.getstate()
        self.log_level = at.logger.level
        # while this process is the current one, the library's generator bindings ARE its objects
        self.rng_objs = {(h, k): getattr(h, k) for h, k in scan_rng_bindings() if hasattr(h, k)}

    def install(self):
        import atomica as at

        np.random.mtrand._rand.set_state(self.np_state)
        pyrandom.setstate(self.py_state)
        at.logger.setLevel(self.log_level)
        for (h, k), obj in self.rng_objs.items():
            setattr(h, k, obj)

    def fork(self, pid, identity):
        import copy

        child = SimProc(self.world, pid, identity)
        # fork happens "now": the child gets the parent's current live state
        if self.world.current is self:
            self.capture()
        child.np_state = self.np_state
        child.py_state = self.py_state
        child.log_level = self.log_level
        memo = {}  # one memo for all objects: names that alias one generator keep aliasing one (copied) generator
        child.rng_objs = {b: copy.deepcopy(obj, memo) for b, obj in self.rng_objs.items()}
        if child.rng_objs:
            self.world.stats["library_generators_forked"] += len(child.rng_objs)
        return child

    def __enter__(self):
        w = self.world
        self._prev = w.current
        if self._prev is not None:
            self._prev.capture()
        self.install()
        w.current = self
        return self

    def __exit__(self, *a):
        self.capture()
        self.world.current = self._prev
        if self._prev is not None:
            self._prev.install()
        return False


class _Shared:
    """Manager-object stub that keeps its identity through pickling (a 'proxy')."""

    _registry = {}
    _ids = itertools.count()

    def __init__(self):
        self._sid = next(_Shared._ids)
        _Shared._registry[self._sid] = self

    def __reduce__(self):
        return (_lookup_shared, (self._sid,))


def _lookup_shared(sid):
    return _Shared._registry[sid]


class SharedDict(_Shared, dict):
    def __init__(self, *a, **k):
        dict.__init__(self, *a, **k)
        _Shared.__init__(self)

    __hash__ = object.__hash__


class SharedList(_Shared, list):
    def __init__(self, *a):
        list.__init__(self, *a)
        _Shared.__init__(self)

    __hash__ = object.__hash__


class SimManager:
    def dict(self, *a, **k):
        return SharedDict(*a, **k)

    def list(self, *a):
        return SharedList(*a)

    def shutdown(self):
        pass

    def __enter__(self):
        return self

    def __exit__(self, *a):
        return False


class SimAsyncResult:
    def __init__(self, pool):
        self.pool = pool
        self._ready = False
        self._ok = None
        self._value = None

    def ready(self):
        return self._ready

    def successful(self):
        if not self._ready:
            raise ValueError("not ready")
        return self._ok

    def wait(self, timeout=None):
        if not self._ready:
            self.pool._run_all()

    def get(self, timeout=None):
        self.wait(timeout)
        if self._ok:
            return self._value
        raise self._value

    def _set(self, ok, value):
        self._ready, self._ok, self._value = True, ok, value


class _MapResult(SimAsyncResult):
    def __init__(self, pool, nchunks, callback, error_callback):
        super().__init__(pool)
        self.chunks = [None] * nchunks
        self.left = nchunks
        self.callback = callback
        self.error_callback = error_callback
        self.failed = None
        if nchunks == 0:
            self._set(True, [])

    def chunk_done(self, i, ok, value):
        if ok:
            self.chunks[i] = value
        elif self.failed is None:
            self.failed = value
        self.left -= 1
        if self.left == 0:
            if self.failed is None:
                self._set(True, list(itertools.chain.from_iterable(self.chunks)))
                if self.callback:
                    self.callback(self._value)
            else:
                self._set(False, self.failed)
                if self.error_callback:
                    self.error_callback(self.failed)


def _mapstar(func, chunk):
    return [func(x) for x in chunk]


def _starmapstar(func, chunk):
    return [func(*x) for x in chunk]


class SimPool:
    """Simulated process pool (API subset of multiprocessing.pool.Pool actually used + the obvious rest)."""

    flavour = "multiprocessing"

    def __init__(self, processes=None, initializer=None, initargs=(), maxtasksperchild=None, context=None):
        w = world()
        if w is None:
            raise RuntimeError("SimPool used outside a SimWorld")
        self.world = w
        if processes is None:
            processes = w.cpu_count
        if processes < 1:
            raise ValueError("Number of processes must be at least 1")
        self.processes = int(processes)
        self.queue = collections.deque()
        self.closed = False
        self.terminated = False
        self.task_seq = 0
        parent = w.current
        self._parent, self._initializer, self._initargs = parent, initializer, initargs
        self.maxtasksperchild = int(maxtasksperchild) if maxtasksperchild else None
        self.workers = []
        for i in range(self.processes):
            w.worker_counter += 1
            child = parent.fork(pid=w.next_pid(), identity=(w.worker_counter,))
            self.workers.append(child)
        for child in self.workers:
            if initializer is not None:
                with child:
                    initializer(*initargs)
        w.stats["pools_created"] += 1
        w.stats["workers_forked"] += self.processes
        w.pools.append(self)

    # pickling flavour ------------------------------------------------------------------
    def _dumps(self, obj):
        if self.flavour == "multiprocess":
            import dill

            return dill.dumps(obj)
        return pickle.dumps(obj)

    def _loads(self, b):
        if self.flavour == "multiprocess":
            import dill

            return dill.loads(b)
        return pickle.loads(b)

    # API -------------------------------------------------------------------------------
    def _check(self):
        if self.closed or self.terminated:
            raise ValueError("Pool not running")

    def apply_async(self, func, args=(), kwds=None, callback=None, error_callback=None):
        self._check()
        res = SimAsyncResult(self)
        payload = self._dumps((func, tuple(args), dict(kwds or {})))
        self.queue.append(("single", self.task_seq, payload, res, callback, error_callback, None))
        self.task_seq += 1
        return res

    def apply(self, func, args=(), kwds=None):
        return self.apply_async(func, args, kwds).get()

    def _chunks(self, iterable, chunksize):
        items = list(iterable)
        if chunksize is None:
            chunksize, extra = divmod(len(items), len(self.workers) * 4)
            if extra:
                chunksize += 1
        if len(items) == 0:
            chunksize = 0
        return [items[i : i + chunksize] for i in range(0, len(items), chunksize)] if chunksize else []

    def _map_async(self, func, iterable, mapper, chunksize=None, callback=None, error_callback=None):
        self._check()
        chunks = self._chunks(iterable, chunksize)
        res = _MapResult(self, len(chunks), callback, error_callback)
        for i, chunk in enumerate(chunks):
            payload = self._dumps((mapper, (func, chunk), {}))
            self.queue.append(("chunk", self.task_seq, payload, res, None, None, i))
            self.task_seq += 1
        return res

    def map_async(self, func, iterable, chunksize=None, callback=None, error_callback=None):
        return self._map_async(func, iterable, _mapstar, chunksize, callback, error_callback)

    def map(self, func, iterable, chunksize=None):
        return self.map_async(func, iterable, chunksize).get()

    def starmap_async(self, func, iterable, chunksize=None, callback=None, error_callback=None):
        return self._map_async(func, iterable, _starmapstar, chunksize, callback, error_callback)

    def starmap(self, func, iterable, chunksize=None):
        return self.starmap_async(func, iterable, chunksize).get()

    def imap(self, func, iterable, chunksize=1):
        return iter(self.map(func, iterable, chunksize))

    def imap_unordered(self, func, iterable, chunksize=1):
        return iter(self.map(func, iterable, chunksize))

    def close(self):
        self.closed = True

    def terminate(self):
        self.terminated = True
        self.queue.clear()

    def join(self):
        if not (self.closed or self.terminated):
            raise ValueError("Pool is still running")
        self._run_all()

    def __enter__(self):
        self._check()
        return self

    def __exit__(self, *a):
        self.terminate()
        return False

    # scheduler -------------------------------------------------------------------------
    def _run_all(self):
        w = self.world
        ch = w.ch
        running = {}  # worker index -> (task, ok, result payload)
        assignment = []
        completion = []
        late = set()
        if len(self.workers) > 1 and w.allow_late_workers:
            for i in range(len(self.workers)):
                if ch.flip(f"pool.late[{i}]", 0.15):
                    late.add(i)
            if len(late) == len(self.workers):
                late.discard(0)
        while self.queue or running:
            options = []
            if self.queue:
                for i in range(len(self.workers)):
                    if i not in running and i not in late:
                        options.append(("start", i))
            for i in sorted(running):
                options.append(("finish", i))
            if not options:  # only late workers idle and nothing running: they wake up
                late.clear()
                continue
            kind, i = options[ch.choose("pool.event", len(options))]
            if kind == "start":
                task = self.queue.popleft()
                tkind, seq, payload, res, cb, ecb, chunk_i = task
                proc = self.workers[i]
                with proc:
                    w.current_task = (seq, proc.pid)
                    try:
                        func, args, kwds = self._loads(payload)
                        value = func(*args, **kwds)
                        out = (True, self._dumps(value))
                    except Exception as e:  # what a real worker does: ship the exception back
                        out = (False, e)
                    finally:
                        w.current_task = None
                    proc.tasks_run += 1
                running[i] = (task, out)
                assignment.append((seq, i))
                w.stats["tasks_executed"] += 1
            else:
                task, (ok, payload) = running.pop(i)
                tkind, seq, _p, res, cb, ecb, chunk_i = task
                if self.maxtasksperchild and self.workers[i].tasks_run >= self.maxtasksperchild:
                    # worker recycling: the worker exits and the pool forks a replacement from the parent AS IT IS NOW
                    # (the parent sits in map/get, so this is its state at the time of the call), then runs the initializer
                    w.worker_counter += 1
                    fresh = self._parent.fork(pid=w.next_pid(), identity=(w.worker_counter,))
                    self.workers[i] = fresh
                    if self._initializer is not None:
                        with fresh:
                            self._initializer(*self._initargs)
                    w.stats["workers_forked"] += 1
                    w.stats["workers_recycled"] = w.stats.get("workers_recycled", 0) + 1
                value = self._loads(payload) if ok else payload
                completion.append(seq)
                if tkind == "single":
                    res._set(ok, value)
                    if ok and cb:
                        cb(value)
                    if (not ok) and ecb:
                        ecb(value)
                else:
                    res.chunk_done(chunk_i, ok, value)
        if assignment:
            w.schedules.append({"assignment": assignment, "completion": completion, "workers": len(self.workers), "late": sorted(late)})


class SimPoolMP(SimPool):
    flavour = "multiprocess"


class _FakeProcessInfo:
    def __init__(self, proc):
        self.name = proc.name
        self._identity = proc.identity
        self.pid = proc.pid
        self.ident = proc.pid
        self.daemon = bool(proc.identity)


class SimWorld:
    """Installs the seams for one simulated run and records what the oracle needs."""

    def __init__(self, ch, seed, cpu_count=4, allow_late_workers=True):
        global _WORLD
        self.ch = ch
        self.entropy = SimEntropy(seed)
        self.cpu_count = cpu_count
        self.allow_late_workers = allow_late_workers
        self._pid = 1000
        self.worker_counter = 0
        self.main = SimProc(self, self._pid, ())
        self.main.capture()
        self.current = self.main
        self.pools = []
        self.schedules = []
        self.stats = collections.Counter()
        self.current_task = None
        self.draw_log = []  # (pid, task seq or None, sample id or None, values tuple)
        self.sample_stack = []
        self.entropy_calls = collections.Counter()
        _WORLD = self

    def next_pid(self):
        self._pid += 1
        return self._pid

    # -- seams --------------------------------------------------------------------------
    def install(self):
        import multiprocessing
        import multiprocessing.pool
        import time as _time

        world_ = self
        seams.patch(multiprocessing.pool, "Pool", SimPool)
        seams.patch(multiprocessing, "Pool", SimPool)
        seams.patch(multiprocessing, "cpu_count", lambda: world_.cpu_count)
        seams.patch(multiprocessing, "Manager", SimManager)
        seams.patch(multiprocessing, "current_process", lambda: _FakeProcessInfo(world_.current))
        try:
            import multiprocess
            import multiprocess.pool

            seams.patch(multiprocess, "Pool", SimPoolMP)
            seams.patch(multiprocess.pool, "Pool", SimPoolMP)
            seams.patch(multiprocess, "cpu_count", lambda: world_.cpu_count)
            seams.patch(multiprocess, "Manager", SimManager)
            seams.patch(multiprocess, "current_process", lambda: _FakeProcessInfo(world_.current))
        except ImportError:
            pass
        seams.patch(os, "cpu_count", lambda: world_.cpu_count)
        seams.patch(os, "getpid", lambda: world_.current.pid)
        seams.patch(os, "urandom", lambda n: world_._entropy_bytes("os.urandom", n))

        rs = np.random.mtrand._rand
        orig_seed = np.random.seed

        def sim_seed(seed=None):
            if seed is None:
                world_.entropy_calls["np.random.seed()"] += 1
                return rs.seed(world_.entropy.uint32(world_.current.pid, 8))
            return rs.seed(seed)

        seams.patch(np.random, "seed", sim_seed)

        orig_default_rng = np.random.default_rng

        def sim_default_rng(seed=None):
            if seed is None:
                world_.entropy_calls["default_rng()"] += 1
                seed = world_.entropy.uint32(world_.current.pid, 8)
            return orig_default_rng(seed)

        seams.patch(np.random, "default_rng", sim_default_rng)

        orig_ss = np.random.SeedSequence

        def sim_seedsequence(entropy=None, **kw):
            if entropy is None:
                world_.entropy_calls["SeedSequence()"] += 1
                entropy = world_.entropy.uint32(world_.current.pid, 8)
            return orig_ss(entropy, **kw)

        seams.patch(np.random, "SeedSequence", sim_seedsequence)

        def recording(name):
            orig = getattr(rs, name)

            def wrapper(*a, **k):
                out = orig(*a, **k)
                world_._record_draw(name, out)
                return out

            wrapper.__name__ = name
            return wrapper

        for name in ("randn", "rand", "normal", "standard_normal", "random", "random_sample", "uniform", "lognormal", "randint", "choice", "beta", "gamma", "poisson", "binomial", "exponential", "multivariate_normal", "permutation", "triangular"):
            if hasattr(np.random, name):
                seams.patch(np.random, name, recording(name))

    def _entropy_bytes(self, what, n):
        self.entropy_calls[what] += 1
        return self.entropy.bytes(self.current.pid, n)

    def _record_draw(self, name, out):
        vals = tuple(np.atleast_1d(np.asarray(out, dtype=float)).ravel().tolist())
        sid = self.sample_stack[-1] if self.sample_stack else None
        self.draw_log.append((self.current.pid, self.current_task[0] if self.current_task else None, sid, vals))
        self.stats["draw_calls"] += 1

    def close(self):
        global _WORLD
        if self.current is not self.main:
            self.current = self.main
        self.main.install() if False else None
        _WORLD = None


def schedule_signature(schedules):
    parts = []
    for s in schedules:
        parts.append((s["workers"], tuple(s["assignment"]), tuple(s["completion"])))
    return hashlib.sha256(repr(parts).encode()).hexdigest()[:16]
