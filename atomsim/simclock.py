"""
Virtual clock: installed as the ``time`` module seen by sciris.sc_asd.  Simulated time advances only
through events -- each objective evaluation costs a pre-drawn duration, and scheduled clock faults
(forward jump, backward jump, stall) fire at given evaluation ordinals.
"""


class SimClock:
    def __init__(self, costs, faults=None, t0=1.7e9):
        self.t0 = t0
        self.now = t0
        self.costs = list(costs) or [0.01]
        self.faults = dict(faults or {})  # evaluation ordinal -> (kind, amount)
        self.evals = 0
        self.stalled = 0
        self.reads = 0
        self.fired = []

    # module-like API used by sc.asd -------------------------------------------------------
    def time(self):
        self.reads += 1
        return self.now

    def perf_counter(self):
        return self.time()

    def monotonic(self):
        return self.time()

    def sleep(self, s):
        self.now += max(0.0, s)

    # simulator side -----------------------------------------------------------------------
    def on_evaluation(self):
        self.evals += 1
        if self.stalled > 0:
            self.stalled -= 1
        else:
            self.now += self.costs[(self.evals - 1) % len(self.costs)]
        f = self.faults.get(self.evals)
        if f:
            kind, amount = f
            if kind == "jump_forward":
                self.now += amount
            elif kind == "jump_backward":
                self.now -= amount
            elif kind == "stall":
                self.stalled = int(amount)
            self.fired.append(kind)

    @property
    def elapsed(self):
        return self.now - self.t0
