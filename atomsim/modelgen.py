"""
Model generator: JSON-able spec -> framework workbook (openpyxl) -> ProjectFramework; databook through
ProjectData.new + direct TimeSeries fills; program book through ProgramSet.new + fills.

Specs are well-posed by construction (the six claimed properties need realistic, not adversarial, numerics).
Feature switches: 1-3 populations, source / sink, plain and residual junction, timed compartment (duration
group), transfer, interaction + population aggregation, function parameters (of compartments,
characteristics, parameters, t), limits, number / probability / rate / duration / proportion units with
timescales, uncertainties, 1-3 programs with any coverage interaction.
"""

import io

import numpy as np


def draw_spec(ch, prefix="gen"):
    """Draw a model spec from the chooser (simplest alternative = 0 everywhere)."""
    spec = {
        "npops": 1 + ch.choose(f"{prefix}.npops", 3),
        "source": ch.flip(f"{prefix}.source", 0.6),
        "sink": ch.flip(f"{prefix}.sink", 0.6),
        "junction": ["none", "plain", "residual"][ch.choose(f"{prefix}.junction", 3)],
        "timed": ch.flip(f"{prefix}.timed", 0.5),
        "timed_duration": [1.0, 0.6, 2.5, 0.2][ch.choose(f"{prefix}.timed_duration", 4)],
        "transfer": ch.flip(f"{prefix}.transfer", 0.4),
        "interaction": ch.flip(f"{prefix}.interaction", 0.4),
        "foi_function": ch.flip(f"{prefix}.foi_function", 0.6),
        "time_function": ch.flip(f"{prefix}.time_function", 0.3),
        "timescale": [None, 1 / 12, 1 / 52][ch.choose(f"{prefix}.timescale", 3)],
        "limits": ch.flip(f"{prefix}.limits", 0.5),
        "sparse_data": ch.flip(f"{prefix}.sparse_data", 0.5),
        "uncertainty": ch.flip(f"{prefix}.uncertainty", 0.3),
        "nprogs": ch.choose(f"{prefix}.nprogs", 4),
        "cov_interaction": ["additive", "random", "nested"][ch.choose(f"{prefix}.cov_interaction", 3)],
        "explicit_interaction": ch.flip(f"{prefix}.explicit_interaction", 0.4),
        "dt": [0.25, 0.5, 1.0, 0.125][ch.choose(f"{prefix}.dt", 4)],
        "years": 4 + ch.choose(f"{prefix}.years", 6),
        "scale": [1.0, 0.5, 2.0][ch.choose(f"{prefix}.scale", 3)],
        # a second parameter on the infection transition whose code name CONTAINS the first one's ("foi" / "foi_imp"),
        # listed before or after it in the cell
        "double_link": ["none", "short_first", "long_first"][ch.choose(f"{prefix}.double_link", 3)],
        # nobody is treated at the start: a program with a saturation that reaches treated people meets an empty
        # target compartment at the first time points
        "empty_treated": ch.flip(f"{prefix}.empty_treated", 0.4),
    }
    if spec["npops"] == 1:
        spec["transfer"] = False
    return spec


def framework_workbook(spec):
    import openpyxl

    wb = openpyxl.Workbook()
    ws = wb.active
    ws.title = "About"
    ws.append(["Name", "Description"])
    ws.append(["Generated", "atomsim generated framework"])

    ws = wb.create_sheet("Databook Pages")
    ws.append(["Datasheet code name", "Datasheet title"])
    ws.append(["stocks", "Stocks"])
    ws.append(["flows", "Flows"])

    comps = []  # code, display, source, sink, junction, setup weight, databook page, default, duration group
    if spec["source"]:
        comps.append(["src", "Source", "y", "n", "n", 0, None, None, None])
    comps.append(["s1", "Susceptible", "n", "n", "n", 1, "stocks", None, None])
    comps.append(["s2", "Infected", "n", "n", "n", 1, "stocks", None, None])
    comps.append(["s3", "Treated", "n", "n", "n", 1, "stocks", None, None])
    if spec["junction"] != "none":
        comps.append(["jn", "Triage", "n", "n", "y", 0, None, None, None])
    if spec["timed"]:
        comps.append(["tm", "Protected", "n", "n", "n", 1, "stocks", None, None])
    if spec["sink"]:
        comps.append(["dead", "Dead", "n", "y", "n", 0, None, None, None])
    ws = wb.create_sheet("Compartments")
    ws.append(["Code name", "Display name", "Is source", "Is sink", "Is junction", "Setup weight", "Databook page", "Default value"])
    for c in comps:
        ws.append(c[:8])
    names = [c[0] for c in comps]

    # transitions
    T = {a: {b: None for b in names} for a in names}
    if spec["source"]:
        T["src"]["s1"] = "b_rate"
    T["s1"]["s2"] = {"none": "foi", "short_first": "foi, foi_imp", "long_first": "foi_imp, foi"}[spec.get("double_link", "none")]
    if spec["junction"] != "none":
        T["s2"]["jn"] = "p_triage"
        T["jn"]["s3"] = "prop_tx"
        if spec["timed"]:
            T["jn"]["tm"] = "prop_jvac"  # a junction feeding a timed compartment from outside its duration group
        if spec["junction"] == "plain":
            T["jn"]["s1"] = "prop_rec"
    else:
        T["s2"]["s3"] = "p_triage"
    T["s3"]["s1"] = "dur_tx"
    if spec["timed"]:
        T["s1"]["tm"] = "p_vac"
        T["tm"]["s1"] = "dur_vac"
        T["tm"]["s2"] = "p_break"
    if spec["sink"]:
        for a in ("s1", "s2", "s3") + (("tm",) if spec["timed"] else ()):
            T[a]["dead"] = "mort" if a != "s2" else "mort, mort_inf"
    ws = wb.create_sheet("Transitions")
    ws.append(["Transition matrix"] + names)
    for a in names:
        ws.append([a] + [T[a][b] for b in names])
    if spec["junction"] == "residual":
        ws.cell(row=1 + names.index("jn") + 1, column=1 + names.index("s1") + 1).value = ">"

    living = ["s1", "s2", "s3"] + (["tm"] if spec["timed"] else [])
    ws = wb.create_sheet("Characteristics")
    ws.append(["Code name", "Display name", "Components", "Denominator", "Setup weight", "Databook page", "Default value"])
    ws.append(["alive", "Alive", ",".join(living), None, 0, None, None])
    ws.append(["inf_all", "Ever infected", "s2,s3", None, 0, None, None])
    ws.append(["prev", "Prevalence", "inf_all", "alive", 0, None, None])

    ts = spec["timescale"]
    P = []  # code, display, format, timescale, default, min, max, function, targetable, databook page, timed
    lim_hi = 1.0 if spec["limits"] else None
    if spec["source"]:
        P.append(["b_rate", "Births", "number", None, None, 0, None, None, "n", "flows", None])
    P.append(["beta", "Transmissibility", "probability", None, None, 0, None, None, "y", "flows", None])
    if spec["interaction"] and spec["npops"] > 1:
        P.append(["foi_out", "Outgoing force", "probability", None, None, 0, lim_hi, "beta*prev", "n", None, None])
        P.append(["foi", "Force of infection", "probability", None, None, 0, lim_hi, "SRC_POP_AVG(foi_out,mixing,alive)", "n", None, None])
    elif spec["foi_function"]:
        fcn = "beta*inf_all/max(alive,1)" + ("*(1+0.1*(t>2003))" if spec["time_function"] else "")
        P.append(["foi", "Force of infection", "probability", None, None, 0, lim_hi, fcn, "n", None, None])
    else:
        P.append(["foi", "Force of infection", "probability", ts, None, 0, None, None, "y", "flows", None])
    if spec.get("double_link", "none") != "none":
        P.append(["foi_imp", "Infections acquired abroad", "probability", None, None, 0, None, None, "n", "flows", None])
    P.append(["p_triage", "Diagnosis", "rate", ts, None, 0, None, None, "y", "flows", None])
    if spec["junction"] != "none":
        P.append(["prop_tx", "Proportion treated", "proportion", None, None, 0, 1, None, "y", "flows", None])
        if spec["timed"]:
            P.append(["prop_jvac", "Proportion protected at triage", "proportion", None, None, 0, 1, None, "n", "flows", None])
        if spec["junction"] == "plain":
            P.append(["prop_rec", "Proportion recovering", "proportion", None, None, 0, 1, "max(0,1-prop_tx" + ("-prop_jvac" if spec["timed"] else "") + ")", "n", None, None])
    P.append(["dur_tx", "Treatment duration", "duration", None, None, 0, None, None, "n", "flows", None])
    if spec["timed"]:
        P.append(["p_vac", "Vaccination", "probability", None, None, 0, None, None, "y", "flows", None])
        P.append(["dur_vac", "Protection duration", "duration", None, None, 0, None, None, "n", "flows", "y"])
        P.append(["p_break", "Breakthrough", "probability", None, None, 0, None, None, "n", "flows", None])
    if spec["sink"]:
        P.append(["mort", "Mortality", "probability", None, None, 0, None, None, "n", "flows", None])
        P.append(["mort_inf", "Disease mortality", "number", None, None, 0, None, None, "y", "flows", None])
    P.append(["tx_frac", "Treated fraction (output)", "proportion", None, None, None, None, "s3/max(alive,1)", "n", None, None])
    # output parameters whose function depends on time only (no model variable), and one built on it
    P.append(["disc", "Discount factor (output)", "number", None, None, None, None, "exp(-0.03*(t-2000))", "n", None, None])
    P.append(["disc_tx", "Discounted treated (output)", "number", None, None, None, None, "disc*s3", "n", None, None])
    # output parameter using the flow syntax ('s2:' = all flows out of s2, which includes transfer links added after the populations are built)
    P.append(["dur_inf", "Average time infected (output)", "years", None, None, None, None, "min(s2/max(s2:,1e-15),50)", "n", None, None])
    ws = wb.create_sheet("Parameters")
    ws.append(["Code name", "Display name", "Format", "Timescale", "Default value", "Minimum value", "Maximum value", "Function", "Targetable", "Databook page", "Timed"])
    for p in P:
        ws.append(p)

    if spec["interaction"] and spec["npops"] > 1:
        ws = wb.create_sheet("Interactions")
        ws.append(["Code name", "Display name", "Default value"])
        ws.append(["mixing", "Mixing", None])

    ws = wb.create_sheet("Cascades")
    ws.append(["main", "Constituents"])
    ws.append(["Alive", "alive"])
    ws.append(["Ever infected", "inf_all"])
    ws.append(["Treated", "s3"])
    # framework-defined plots, including flow selectors and a named aggregation (as the TB library framework has)
    ws = wb.create_sheet("Plots")
    ws.append(["Name", "Type", "Quantities", "Plot group"])
    ws.append(["Population size", "series", "alive", "Stocks"])
    ws.append(["Treated", "series", "s3", "Stocks"])
    ws.append(["New infections", "series", "foi:flow", "Flows"])
    ws.append(["Arrivals in care", "series", ":s3", "Flows"])
    ws.append(["Leaving infection", "series", "s2:", "Flows"])
    ws.append(["Movement", "series", "{'Into or out of treatment':[':s3','s3:']}", "Flows"])
    ws.append(["Treated fraction", "series", "tx_frac", None])
    f = io.BytesIO()
    wb.save(f)
    f.seek(0)
    return f, [p[0] for p in P]


def build_project(spec, name="generated"):
    """Returns an atomica Project built from ``spec`` (framework + databook + optional program book)."""
    import atomica as at
    import sciris as sc

    f, par_names = framework_workbook(spec)
    fw = at.ProjectFramework(sc.Spreadsheet(f))
    y0 = 2000.0
    tvec = np.arange(y0, y0 + spec["years"] + 1)
    pops = sc.odict()
    for i in range(spec["npops"]):
        pops[["kids", "adults", "old people"][i]] = ["Children 0-14", "Adults 15-64", "Seniors 65+"][i]
    transfers = sc.odict([("age", "Aging")]) if spec["transfer"] else 0
    data = at.ProjectData.new(fw, tvec, pops=pops, transfers=transfers)
    sc_ = spec["scale"]

    def fill(ts, base, k, trend=0.0):
        ts.t, ts.vals = [], []
        if spec["sparse_data"]:
            ts.assumption = None
            ts.insert(float(tvec[0]), base)
            ts.insert(float(tvec[-1]), base * (1 + trend))
            if len(tvec) > 3 and k % 2:
                ts.insert(float(tvec[2]), base * (1 + 0.5 * trend))
        else:
            ts.assumption = base
        if spec["uncertainty"] and k % 3 == 0:
            ts.sigma = 0.02 * abs(base) if base else None

    values = {
        "s1": 1000.0, "s2": 100.0, "s3": 50.0, "tm": 40.0,
        "b_rate": 30.0, "beta": 0.3, "foi": 0.05, "p_triage": 0.4, "prop_tx": 0.7, "prop_jvac": 0.15, "dur_tx": 2.0,
        "p_vac": 0.1, "dur_vac": spec["timed_duration"], "p_break": 0.05, "mort": 0.02, "mort_inf": 3.0, "foi_imp": 0.004,
    }
    if spec.get("empty_treated"):
        values["s3"] = 0.0
    trends = {"beta": -0.3, "p_triage": 0.5, "b_rate": 0.2, "prop_tx": 0.2, "foi": -0.2, "mort_inf": -0.3}
    k = 0
    for name_, tdve in data.tdve.items():
        for pi, (pop, ts) in enumerate(tdve.ts.items()):
            base = values.get(name_, 0.1)
            if name_ in ("s1", "s2", "s3", "tm", "b_rate", "mort_inf"):
                base = base * sc_ * (1 + 0.5 * pi)
            elif name_ in ("dur_vac",):
                base = values[name_]  # duration parameters of timed compartments must not vary in time
                ts.t, ts.vals, ts.assumption = [], [], base
                continue
            else:
                base = base * (1 + 0.1 * pi)
            if spec["timescale"] and name_ in ("foi", "p_triage"):
                base = base * spec["timescale"]
            fill(ts, base, k, trends.get(name_, 0.0))
            k += 1
    for tdc in data.transfers:
        names = list(pops.keys())
        for a, b in zip(names[:-1], names[1:]):
            ts = at.TimeSeries(units="probability")
            if spec["sparse_data"]:
                ts.insert(float(tvec[0]), 0.05)
                ts.insert(float(tvec[-1]), 0.04)
            else:
                ts.assumption = 0.05
            tdc.ts[(a, b)] = ts
        if len(names) > 2:
            # a second destination from the first population: two neighbouring rows of the transfer table are filled,
            # one with time-specific values and one with a constant / other years
            ts = at.TimeSeries(units="probability")
            if spec["uncertainty"]:
                ts.insert(float(tvec[1]), 0.01)
            else:
                ts.assumption = 0.01
            tdc.ts[(names[0], names[2])] = ts
    for tdc in data.interpops:
        names = list(pops.keys())
        for i, a in enumerate(names):
            for j, b in enumerate(names):
                ts = at.TimeSeries(units="N.A.")
                base = 1.0 if a == b else 0.5
                if spec["sparse_data"] and (i + j) % 2 == 1:
                    ts.insert(float(tvec[0]), base)
                    ts.insert(float(tvec[min(2, len(tvec) - 1)]), base * 1.5)
                else:
                    ts.assumption = base
                tdc.ts[(a, b)] = ts
    P = at.Project(name=name, framework=fw, databook=data, do_run=False)
    P.settings.update_time_vector(start=y0, end=y0 + spec["years"], dt=spec["dt"])

    if spec["nprogs"] > 0:
        progs = sc.odict()
        for i in range(spec["nprogs"]):
            progs[f"prog{i + 1}"] = f"Program {i + 1}"
        pset = at.ProgramSet.new(tvec=tvec, progs=progs, framework=fw, data=data)
        pop_names = list(pops.keys())
        targetable = [p for p in ("beta", "p_triage", "prop_tx", "p_vac", "mort_inf", "foi") if p in pset.pars]
        for i, prog in enumerate(pset.programs.values()):
            prog.target_pops = pop_names if i % 2 == 0 else pop_names[:1]
            prog.target_comps = ["s2"] if i % 2 == 0 else ["s1", "s2"]
            prog.spend_data = at.TimeSeries(float(tvec[0]), 2000.0 * (i + 1) * sc_, units=prog.spend_data.units)
            if i == 0 and len(tvec) > 2:
                prog.spend_data.insert(float(tvec[2]), 3000.0 * sc_)
            prog.unit_cost = at.TimeSeries(float(tvec[0]), 20.0 * (i + 1), units=("$/person/year" if i % 2 else "$/person (one-off)"))
            if i == 1:
                # binding: spending / unit cost would reach 100 * scale people per year
                prog.capacity_constraint = at.TimeSeries(float(tvec[0]), 60.0 * sc_, units="people/year")
            if i == 2:
                prog.saturation = at.TimeSeries(float(tvec[0]), 0.9, units=prog.saturation.units)
                if spec.get("empty_treated"):
                    prog.target_comps = ["s3"]
        prog_names = list(pset.programs.keys())
        for j, par in enumerate(targetable[: 1 + spec["nprogs"]]):
            for pop in pop_names:
                progs_here = {pn: None for pn in prog_names[: 1 + (j + 1) % len(prog_names)]}
                base = {"beta": 0.3, "p_triage": 0.4, "prop_tx": 0.7, "p_vac": 0.1, "mort_inf": 0.01, "foi": 0.05}[par]
                if spec["timescale"] and par in ("foi", "p_triage"):
                    base = base * spec["timescale"]
                for q, pn in enumerate(progs_here):
                    progs_here[pn] = base * (1.5 + 0.25 * q) if par != "prop_tx" else min(1.0, base * (1.2 + 0.1 * q))
                    if pop not in pset.programs[pn].target_pops:
                        pass
                if par in ("mort_inf", "p_vac") and progs_here:
                    progs_here[list(progs_here.keys())[0]] = 0.0  # an outcome of exactly zero is valid (the program removes the flow entirely)
                progs_here = {pn: v for pn, v in progs_here.items() if pop in pset.programs[pn].target_pops}
                if not progs_here:
                    continue
                imp = None
                if spec.get("explicit_interaction") and len(progs_here) >= 2:
                    two = list(progs_here.keys())[:2]
                    imp = f"{two[0]}+{two[1]}={max(progs_here[two[0]], progs_here[two[1]]) * 1.0987654321:.12g}"  # explicit outcome when both programs reach a person
                pset.covouts[(par, pop)] = at.programs.Covout(par=par, pop=pop, progs=progs_here, cov_interaction=spec["cov_interaction"], imp_interaction=imp, baseline=base * 0.5, uncertainty=(0.01 * base if spec["uncertainty"] else None))
        # round trip through the program book so that the set is exactly what the loader produces; the set as it was
        # built through the API is kept (pickled) so that a check can compare the two independently of the loader
        import pickle as _pickle

        pset.name = "default"
        P._handbuilt_progset_blob = _pickle.dumps(pset)
        pset = at.ProgramSet.from_spreadsheet(pset.to_spreadsheet(), framework=fw, data=data, name="default")
        P.progsets.append(pset)
    return P
