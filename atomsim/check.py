import sys

from .driver import main

if __name__ == "__main__":
    sys.exit(main())
