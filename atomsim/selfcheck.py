"""setup_cmd: import check of the environment + a reduced determinism self-test of the simulator core."""
import sys


def main():
    import atomica  # noqa
    import sciris  # noqa
    import numpy  # noqa
    import dill  # noqa
    import multiprocess  # noqa
    from atomsim.chooser import random_chooser, tape_chooser

    a = random_chooser("selfcheck", 1)
    vals = [a.choose("x", 10) for _ in range(50)] + [a.uniform("u", 0, 1) for _ in range(5)]
    b = tape_chooser(a.values())
    vals2 = [b.choose("x", 10) for _ in range(50)] + [b.uniform("u", 0, 1) for _ in range(5)]
    assert vals == vals2, "tape replay mismatch"
    print("atomsim selfcheck ok: atomica", atomica.__version__, "from", atomica.__file__)
    return 0


if __name__ == "__main__":
    sys.exit(main())
