#!/venv/bin/python
"""
Run checks against a seeded breaking change WITHOUT touching /repo: a scratch worktree of /repo's HEAD gets the
patch, the check imports atomica from it (PYTHONPATH) and reads its library files from it (ATOMICA_REPO); evidence
and replay files go to a scratch directory.  The worktree is removed afterwards.

usage: tools/run_seeded.py <seeded-name|path/to/patch.diff> [CHECK ...] [--tier quick] [--runs N] [--keep-replays DIR]
"""
import argparse, json, os, shutil, subprocess, sys, tempfile

VERIF = os.path.dirname(os.path.dirname(os.path.abspath(__file__)))


def main():
    ap = argparse.ArgumentParser()
    ap.add_argument("seed")
    ap.add_argument("checks", nargs="*")
    ap.add_argument("--tier", default="quick")
    ap.add_argument("--runs", type=int, default=None)
    ap.add_argument("--nproc", type=int, default=None)
    args = ap.parse_args()
    patch = args.seed if os.path.exists(args.seed) else os.path.join(VERIF, "seeded", args.seed, "patch.diff")
    meta_path = os.path.join(os.path.dirname(patch), "meta.json")
    checks = args.checks
    if not checks and os.path.exists(meta_path):
        checks = [json.load(open(meta_path))["property"]]
    wt = tempfile.mkdtemp(prefix="seedrun_", dir="/tmp")
    os.rmdir(wt)
    out = tempfile.mkdtemp(prefix="seedout_", dir="/tmp")
    rc_all = {}
    try:
        subprocess.run(["git", "-C", "/repo", "worktree", "add", "--detach", wt, "HEAD", "-q"], check=True)
        r = subprocess.run(["git", "-C", wt, "apply", "--whitespace=nowarn", os.path.abspath(patch)], capture_output=True, text=True)
        if r.returncode:
            print("PATCH DOES NOT APPLY:", r.stderr)
            return 3
        env = dict(os.environ, PYTHONPATH=wt, ATOMICA_REPO=wt, PYTHONHASHSEED="0", MPLBACKEND="agg", VERIF_EVIDENCE_DIR=os.path.join(out, "evidence"), VERIF_REPLAY_DIR=os.path.join(out, "replays"))
        for c in checks:
            cmd = ["timeout", "3000", sys.executable, "-m", "atomsim.check", c, "--tier", args.tier]
            if args.runs:
                cmd += ["--runs", str(args.runs)]
            if args.nproc:
                cmd += ["--nproc", str(args.nproc)]
            p = subprocess.run(cmd, cwd=VERIF, env=env, capture_output=True, text=True)
            lines = [l for l in p.stdout.splitlines() if l.startswith(("VIOLATION", "  class=", "KNOWN-FINDING", "[" + c))]
            print(f"=== {c} on {os.path.basename(os.path.dirname(patch))}: exit {p.returncode}")
            for l in lines:
                print("   ", l[:700])
            if p.returncode == 2:
                print(p.stderr[-1500:])
            rc_all[c] = p.returncode
    finally:
        subprocess.run(["git", "-C", "/repo", "worktree", "remove", "--force", wt], capture_output=True)
        shutil.rmtree(wt, ignore_errors=True)
        shutil.rmtree(out, ignore_errors=True)
    print("RESULT", json.dumps(rc_all))
    return 0


if __name__ == "__main__":
    sys.exit(main())
