#!/venv/bin/python
"""
Adopt a seeded breaking change produced by a sub-agent: copy patch/demo/meta into /verif/seeded/<name>/ and confirm
in a fresh scratch worktree that (1) the patch applies to /repo HEAD, (2) the demo exits 0 without the patch and
non-zero with it.  (The full pinned test suite is confirmed separately by tools/suite_seeded.py.)
usage: tools/adopt_seed.py /tmp/wt_xxx <name>
"""
import json, os, shutil, subprocess, sys, tempfile

VERIF = os.path.dirname(os.path.dirname(os.path.abspath(__file__)))


def run_demo(wt, demo):
    env = dict(os.environ, PYTHONPATH=wt, MPLBACKEND="agg", PYTHONHASHSEED="0")
    p = subprocess.run(["timeout", "600", "/venv/bin/python", demo], cwd=wt, env=env, capture_output=True, text=True)
    return p.returncode, (p.stdout + p.stderr)[-600:]


def main():
    src, name = sys.argv[1], sys.argv[2]
    dst = os.path.join(VERIF, "seeded", name)
    os.makedirs(dst, exist_ok=True)
    for f in ("patch.diff", "demo.py", "meta.json"):
        shutil.copy(os.path.join(src, "_seeded", f), os.path.join(dst, f))
    wt = tempfile.mkdtemp(prefix="adopt_", dir="/tmp")
    os.rmdir(wt)
    try:
        subprocess.run(["git", "-C", "/repo", "worktree", "add", "--detach", wt, "HEAD", "-q"], check=True)
        rc0, out0 = run_demo(wt, os.path.join(dst, "demo.py"))
        r = subprocess.run(["git", "-C", wt, "apply", "--whitespace=nowarn", os.path.join(dst, "patch.diff")], capture_output=True, text=True)
        if r.returncode:
            print("PATCH DOES NOT APPLY", r.stderr)
            return 1
        rc1, out1 = run_demo(wt, os.path.join(dst, "demo.py"))
        imp = subprocess.run(["/venv/bin/python", "-c", "import atomica"], cwd=wt, env=dict(os.environ, PYTHONPATH=wt), capture_output=True).returncode
    finally:
        subprocess.run(["git", "-C", "/repo", "worktree", "remove", "--force", wt], capture_output=True)
        shutil.rmtree(wt, ignore_errors=True)
    meta = json.load(open(os.path.join(dst, "meta.json")))
    meta["confirmed"] = {"demo_exit_clean": rc0, "demo_exit_patched": rc1, "imports_with_patch": imp == 0, "demo_output_patched_tail": out1[-300:], "repo_head": subprocess.run(["git", "-C", "/repo", "rev-parse", "--short", "HEAD"], capture_output=True, text=True).stdout.strip()}
    json.dump(meta, open(os.path.join(dst, "meta.json"), "w"), indent=1)
    print(name, "clean:", rc0, "patched:", rc1, "imports:", imp == 0)
    print(out1[-300:])
    return 0 if (rc0 == 0 and rc1 != 0 and imp == 0) else 1


if __name__ == "__main__":
    sys.exit(main())
