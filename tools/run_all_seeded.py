#!/venv/bin/python
"""Sensitivity regression: every seeded change must be caught (exit 1) by the check of its property. Writes seeded/RESULTS.json."""
import concurrent.futures as cf, json, os, re, subprocess, sys

VERIF = os.path.dirname(os.path.dirname(os.path.abspath(__file__)))
names = sorted(n for n in os.listdir(os.path.join(VERIF, "seeded")) if os.path.isdir(os.path.join(VERIF, "seeded", n)))
nproc = int(sys.argv[1]) if len(sys.argv) > 1 else 5


def one(name):
    p = subprocess.run([os.path.join(VERIF, "tools", "run_seeded.py"), name, "--nproc", str(nproc)], capture_output=True, text=True)
    m = re.search(r"RESULT (\{.*\})", p.stdout)
    res = json.loads(m.group(1)) if m else {}
    classes = sorted(set(re.findall(r"class=(\S+) site=", p.stdout)))
    return name, {"exit": res, "violation_classes": classes}


out = {}
with cf.ThreadPoolExecutor(max_workers=3) as ex:
    for name, r in ex.map(one, names):
        out[name] = r
        print(name, r, flush=True)
head = subprocess.run(["git", "-C", "/repo", "rev-parse", "--short", "HEAD"], capture_output=True, text=True).stdout.strip()
vhead = subprocess.run(["git", "-C", VERIF, "rev-parse", "--short", "HEAD"], capture_output=True, text=True).stdout.strip()
json.dump({"repo_head": head, "verif_head": vhead, "results": out, "all_caught": all(any(v == 1 for v in r["exit"].values()) for r in out.values())}, open(os.path.join(VERIF, "seeded", "RESULTS.json"), "w"), indent=1)
print("ALL CAUGHT" if all(any(v == 1 for v in r["exit"].values()) for r in out.values()) else "SOME MISSED")
