#!/bin/bash
# usage: tools/sweep.sh "<seeds>" "<checks>" [tier] [nproc]  -- runs checks for several seeds, scratch evidence dir; prints VIOLATION/HARNESS lines
SEEDS=${1:-"1 2 3"}; CHECKS=${2:-"C08 C10 C15 C16 C17 C20"}; TIER=${3:-quick}; NPROC=${4:-6}
cd "$(dirname "$0")/.."
for seed in $SEEDS; do for c in $CHECKS; do
  echo "##### seed=$seed $c $TIER"
  VERIF_SEED=$seed VERIF_EVIDENCE_DIR=/tmp/sweep_ev_$$ VERIF_REPLAY_DIR=/verif/replays PYTHONHASHSEED=0 MPLBACKEND=agg timeout 4000 /venv/bin/python -m atomsim.check $c --tier $TIER --nproc $NPROC 2>&1 | grep -v Warn | grep -E "^\[C.*tier|VIOLATION|class=|HARNESS|KNOWN" | cut -c1-1200
done; done
rm -rf /tmp/sweep_ev_$$
