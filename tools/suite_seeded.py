#!/venv/bin/python
"""
Confirm that seeded changes keep the pinned test suite green: for each /verif/seeded/<name>/patch.diff a scratch
worktree of /repo HEAD gets the patch and the baseline pytest command runs there (PYTHONPATH=worktree); the set of
passing tests must contain every test of BASELINE.json's stable_pass.  Results are recorded in meta.json.
usage: tools/suite_seeded.py [name ...]   (all when omitted; run in parallel, one core each)
"""
import concurrent.futures as cf, json, os, shutil, subprocess, sys, tempfile
import xml.etree.ElementTree as ET

VERIF = os.path.dirname(os.path.dirname(os.path.abspath(__file__)))
STABLE = set(json.load(open("/root/.vp/BASELINE.json"))["stable_pass"])


def one(name):
    d = os.path.join(VERIF, "seeded", name)
    wt = tempfile.mkdtemp(prefix="suite_", dir="/tmp")
    os.rmdir(wt)
    try:
        subprocess.run(["git", "-C", "/repo", "worktree", "add", "--detach", wt, "HEAD", "-q"], check=True)
        r = subprocess.run(["git", "-C", wt, "apply", "--whitespace=nowarn", os.path.join(d, "patch.diff")], capture_output=True, text=True)
        if r.returncode:
            return name, {"error": "patch does not apply: " + r.stderr[:200]}
        junit = os.path.join(wt, "junit.xml")
        env = dict(os.environ, PYTHONPATH=wt, MPLBACKEND="agg")
        subprocess.run(["/venv/bin/python", "-m", "pytest", "-ra", "-q", "-p", "no:cacheprovider", "--timeout=900", "--continue-on-collection-errors", f"--junitxml={junit}"], cwd=wt, env=env, capture_output=True, text=True, timeout=7200)
        passed = set()
        for tc in ET.parse(junit).iter("testcase"):
            if not any(c.tag in ("failure", "error", "skipped") for c in tc):
                passed.add(f"{tc.get('classname')}::{tc.get('name')}")
        res = {"stable_passing": len(STABLE & passed), "stable_total": len(STABLE), "stable_now_failing": sorted(STABLE - passed), "repo_head": subprocess.run(["git", "-C", "/repo", "rev-parse", "--short", "HEAD"], capture_output=True, text=True).stdout.strip()}
    finally:
        subprocess.run(["git", "-C", "/repo", "worktree", "remove", "--force", wt], capture_output=True)
        shutil.rmtree(wt, ignore_errors=True)
    meta_p = os.path.join(d, "meta.json")
    meta = json.load(open(meta_p))
    meta["pinned_suite_with_patch"] = res
    json.dump(meta, open(meta_p, "w"), indent=1)
    return name, res


if __name__ == "__main__":
    names = sys.argv[1:] or sorted(os.listdir(os.path.join(VERIF, "seeded")))
    with cf.ThreadPoolExecutor(max_workers=12) as ex:
        for name, res in ex.map(one, names):
            print(name, res)
