"""Regenerates MANIFEST.json (run: /venv/bin/python tools_manifest.py)."""
import json

NA = {
    "C01": "conservation is an algebraic identity of one deterministic, single-threaded integration: no schedule, clock, fault, crash point or call history for a simulator to own (DESIGN.md section 5)",
    "C02": "non-negativity / no over-draw is a pure function of framework x data x dt inside the same sequential loop; nothing to schedule or fault",
    "C03": "unit conversion and the dt grid compare two pure functions of the inputs; no nondeterminism, time source or I/O involved",
    "C04": "junction balancing / initial flush is arithmetic on one step's inflows and proportions; pure function of inputs",
    "C05": "the 'timer' of a timed compartment is a row index advanced by the deterministic loop, not a clock the code reads; D/dt rounding is an input-space hazard",
    "C06": "parameter precedence is a deterministic evaluation order fixed by a topological sort of the inputs",
    "C07": "initialization solve/refusal is one lstsq call and threshold tests on inputs",
    "C09": "no-effect-before-start is a metamorphic relation between two deterministic runs differing in an input; the start year is data, not a scheduled event",
    "C11": "coverage bounded and monotone in spending is a closed-form function on a continuous domain",
    "C12": "outcome as coverage-weighted average is a pure function of a coverage vector and an outcome table",
    "C13": "programs-set-parameters-exactly relates two deterministic computations over the same stored inputs (the aliasing/copy aspect is exercised under C08)",
    "C14": "constrained allocation is a numerical projection of an input vector; its only environmental dependence (set order under hash randomisation) is exercised under C15",
    "C18": "file acceptance/rejection is quantified over semantic single-rule mutations of file content; no byte-level I/O faults, truncation or concurrent access are in the statement",
    "C19": "parser whitelist and arithmetic is a syntactic property of strings; no execution environment involved",
}

CHECKS = {}

def check(pid, level, text, note, technique, ref, thorough=True):
    cmd = "PYTHONHASHSEED=0 MPLBACKEND=agg timeout {t} /venv/bin/python -m atomsim.check {p} --tier {tier}"
    c = {
        "property_id": pid,
        "quick_cmd": cmd.format(t=900, p=pid, tier="quick"),
        "evidence_file": f"/verif/evidence/{pid}.json",
        "replay_cmd_template": "PYTHONHASHSEED=0 MPLBACKEND=agg /venv/bin/python -m atomsim.check " + pid + " --replay {path}",
        "engine": "atomsim",
        "level_claimed": {"category": level, "text": text, "design_ref": ref},
        "level_note": note,
        "technique": technique,
    }
    if thorough:
        c["thorough_cmd"] = cmd.format(t=3300, p=pid, tier="thorough")
    CHECKS[pid] = c

check(
    "C17", "exploration",
    "Seeded search over simulated fork-pool schedules: real run_sampled_sims / Ensemble.run_sims code runs on N simulated worker processes that inherit the parent's RNG state, a seeded scheduler decides task->worker assignment and completion order, BadInitialization retry faults are injected; oracles compare per-sample perturbation vectors and raw draw streams, source digests, zero-uncertainty equality. Sampling, not proof: the schedule space is sampled, every violation is a minimised replayable tape.",
    "Trusts the SimPool/SimManager/entropy stubs (fork = copy of RNG state at pool creation, tasks isolated by pickling) -- cross-checked against the real pools in the thorough tier; trusts numpy's generators.",
    "deterministic simulation: simulated fork pool + seeded scheduler + retry fault injection",
    "DESIGN.md 2.2, 4 (C17)",
)

manifest = {
    "version": 1,
    "setup_cmd": "cd /verif && PYTHONHASHSEED=0 MPLBACKEND=agg timeout 600 /venv/bin/python -m atomsim.selfcheck",
    "hooks": {
        "guard": "ATOMICA_VERIF",
        "enable": "no source hooks: every seam is a module/class attribute replaced from /verif at run time (atomsim.seams); atomica is imported from /repo's working tree (editable install)",
        "baseline_off_cmd": "cd /repo && /venv/bin/python -m pytest -ra -q -p no:cacheprovider --timeout=900 --continue-on-collection-errors",
        "source_commits": [],
        "add_only": True,
    },
    "engines": [
        {"name": "atomsim", "path": "/verif/atomsim", "serves_properties": sorted(CHECKS), "kind_free_text": "in-house deterministic simulator: choice tape (seed -> replay -> minimise), simulated fork pool, virtual clock, baton-passing interleaver, counted fault points, digests"}
    ],
    "checks": [CHECKS[k] for k in sorted(CHECKS)],
    "not_applicable": [{"property_id": k, "reason": v} for k, v in sorted(NA.items())],
    "notes": "Technique: deterministic simulation with fault injection only. Checks import atomica from /repo's working tree on every invocation; nothing is cached between invocations. Exit 2 = harness error (never a verdict).",
}
json.dump(manifest, open("MANIFEST.json", "w"), indent=1)
print("wrote MANIFEST.json with", len(CHECKS), "checks")
