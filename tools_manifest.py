"""Regenerates MANIFEST.json (run: /venv/bin/python tools_manifest.py)."""
import json

NA = {
    "C01": "conservation is an algebraic identity of one deterministic, single-threaded integration: no schedule, clock, fault, crash point or call history for a simulator to own (DESIGN.md section 5)",
    "C02": "non-negativity / no over-draw is a pure function of framework x data x dt inside the same sequential loop; nothing to schedule or fault",
    "C03": "unit conversion and the dt grid compare two pure functions of the inputs; no nondeterminism, time source or I/O involved",
    "C04": "junction balancing / initial flush is arithmetic on one step's inflows and proportions; pure function of inputs",
    "C05": "the 'timer' of a timed compartment is a row index advanced by the deterministic loop, not a clock the code reads; D/dt rounding is an input-space hazard",
    "C06": "parameter precedence is a deterministic evaluation order fixed by a topological sort of the inputs",
    "C07": "initialization solve/refusal is one lstsq call and threshold tests on inputs",
    "C09": "no-effect-before-start is a metamorphic relation between two deterministic runs differing in an input; the start year is data, not a scheduled event",
    "C11": "coverage bounded and monotone in spending is a closed-form function on a continuous domain",
    "C12": "outcome as coverage-weighted average is a pure function of a coverage vector and an outcome table",
    "C13": "programs-set-parameters-exactly relates two deterministic computations over the same stored inputs (the aliasing/copy aspect is exercised under C08)",
    "C14": "constrained allocation is a numerical projection of an input vector; its only environmental dependence (set order under hash randomisation) is exercised under C15",
    "C18": "file acceptance/rejection is quantified over semantic single-rule mutations of file content; no byte-level I/O faults, truncation or concurrent access are in the statement",
    "C19": "parser whitelist and arithmetic is a syntactic property of strings; no execution environment involved",
}

CHECKS = {}

def check(pid, level, text, note, technique, ref, thorough=True):
    cmd = "PYTHONHASHSEED=0 MPLBACKEND=agg timeout {t} /venv/bin/python -m atomsim.check {p} --tier {tier}"
    c = {
        "property_id": pid,
        "quick_cmd": cmd.format(t=900, p=pid, tier="quick"),
        "evidence_file": f"/verif/evidence/{pid}.json",
        "replay_cmd_template": "PYTHONHASHSEED=0 MPLBACKEND=agg /venv/bin/python -m atomsim.check " + pid + " --replay {path}",
        "engine": "atomsim",
        "level_claimed": {"category": level, "text": text, "design_ref": ref},
        "level_note": note,
        "technique": technique,
    }
    if thorough:
        c["thorough_cmd"] = cmd.format(t=3300, p=pid, tier="thorough")
    CHECKS[pid] = c

check(
    "C17", "exploration",
    "Seeded search over simulated fork-pool schedules: real run_sampled_sims / Ensemble.run_sims code runs on N simulated worker processes that inherit the parent's RNG state, a seeded scheduler decides task->worker assignment and completion order, BadInitialization retry faults are injected; oracles compare per-sample perturbation vectors (whole and component-wise) and raw draw streams, source digests, zero-uncertainty equality. The schedule space is sampled; for tiny pools (2-4 samples on 2-3 workers) ALL task assignments and completion orders are enumerated; every violation is a minimised replayable tape. The simulated pool is cross-checked against the real fork pools on every run of the check.",
    "Trusts the SimPool/SimManager/entropy stubs (fork = copy of RNG state at pool creation, tasks isolated by pickling) -- cross-checked against the real pools in the thorough tier; trusts numpy's generators.",
    "deterministic simulation: simulated fork pool + seeded scheduler + retry fault injection",
    "DESIGN.md 2.2, 4 (C17)",
)

check(
    "C08", "exploration",
    "Seeded search over interleavings: 1..4 clients (build / deepcopy / pickle / sc.dcp / process original and copy / run_sim / Result and Project save-load / Scenario.run) interleaved by the choice tape at operation and integration-stage granularity (baton-passing threads, pre-emption at Model.update_comps/pars/links/flush_junctions) with environment disturbances between slices; every Result must be bit-identical to the same configuration run alone in a fresh interpreter under another PYTHONHASHSEED, and deep digests of all inputs must be unchanged after every operation. Sampling of schedules, not proof.",
    "Trusts the baton scheduler (one thread runs at a time), the digests (sha256 over raw array bytes / canonical object walk) and that pre-emption at operation and integration-stage boundaries is the granularity at which 'interleaved runs' interact.",
    "deterministic simulation: seeded cooperative interleaving of runs + isolated reference interpreter",
    "DESIGN.md 2.4, 4 (C08)",
)
check(
    "C10", "fault_enumeration",
    "Crash-and-restart simulation: for every seeded problem (project, dt, horizon, programs and their start/stop years) EVERY grid index (the first year included) is a crash point; the only surviving state is the saved Initialization, kept on a seeded durable medium (live object, deep copy, binary project file, calibration spreadsheet into a fresh parset); chains of up to 3 restarts, several saved states alive at once (all saved and taken through their media before any is run) and runs resumed in segments through one parameter set. The restarted run is compared index by index with the tail of the uninterrupted run (bit identity on identical grids and lossless media, 1e-9 otherwise). Crash indices are enumerated per problem; problems, media and chains are sampled.",
    "Assumes the restarted simulation runs on the tail of the original time grid: cases where ProjectSettings.tvec re-anchored at Y yields another grid (inexact dt; property C03's subject) or where a step discontinuity sits on an inexactly reproduced grid value are counted and skipped, not judged.",
    "deterministic simulation: enumerated crash points + durable-state media + restart chains",
    "DESIGN.md 4 (C10)",
)
check(
    "C15", "fault_enumeration",
    "Real calibrate / optimize / reconcile run under a virtual clock (per-evaluation cost, jumps, stalls; time budget reached in microseconds) and a seeded optimiser path; each problem is executed fault-free and then once per crash point k=1..N with an exception injected at the k-th simulation (N = simulations of the fault-free execution; all k enumerated up to a cap), plus BadInitialization / MemoryError / KeyboardInterrupt at sampled k, FailedConstraint at the j-th SLSQP projection and an unpickling failure at the j-th model copy. Problems cover y-factor / meta-factor / transfer adjustables, spending adjustments with absolute and relative bounds, spending packages, total-spend constraints, minimise / maximise / at-most / at-least / increase-by / decrease-by / cascade-stage measurables over single years and ranges with and without population selection; the documented meaning of every measurable class is also probed directly on the baseline model. Oracles: deep digests of caller parset / progset / instructions / settings / data on every exit path; objective values captured at the seam equal a reference re-implementation of the documented objective evaluated on the same model; independent re-simulation of the returned point is no worse than the start, keeps hard targets and bounds, total-spend constraint holds.",
    "Trusts the SimClock and simulated-entropy stubs, the reference objective written from the docstrings, and sciris.asd (real third-party code). Value oracles are applied to fault-free executions only; side-effect oracles on every exit path.",
    "deterministic simulation: virtual clock + seeded optimiser + enumerated crash points at the k-th evaluation",
    "DESIGN.md 2.3, 2.5, 4 (C15)",
)
check(
    "C16", "exploration",
    "State machine over one project: seeded histories (<= 4) of library editing operations (copy, add/remove/rename population, add/remove transfer / program / parameter / compartment, value edits, zero-uncertainty sampling, reconciliation under the virtual clock, loading a calibration) followed by every storage round trip (framework / databook / program book / calibration spreadsheets, binary project and result files) including lossy calibration files (rows dropped, unknown parameters / populations / columns, reordered rows, blank cells). Reference model: the object rebuilt from its own exported spreadsheet; content equality irrespective of order and metadata; paired simulations (1e-9 first trip, bit identity afterwards).",
    "Trusts openpyxl/xlsxwriter/pandas as the storage layer (no byte-level faults: not in the property), the canonical content extraction in checks/c16.py, and the virtual clock for reconciliation.",
    "deterministic simulation: seeded operation histories + storage round trips + named storage faults, reference-model oracle",
    "DESIGN.md 2.6, 4 (C16)",
)
check(
    "C20", "exploration",
    "Seeded histories (<= 6) of read-only reporting calls on one shared Result (PlotData with mixed outputs / groups / explicit and default aggregations / time bins, interpolation, cascade values from results and data, coverage / allocation queries, exports, plots). Sequential specification of a read-only API: the Result digest (arrays and link wiring) and a fixed set of probe reports are unchanged after every call; every returned series equals the series of the same single query issued alone on a pristine copy; sums equal the sum of parts, averages lie within parts, number totals equal the sum over populations, cascade stages never increase, cascade data equal the sum of databook entries.",
    "No fault dimension exists for this property; what the technique contributes is the history/order dimension and the shared-object invariant. Trusts matplotlib's agg backend and the pristine pickle copy.",
    "deterministic simulation: seeded call histories against a sequential read-only specification (isolated-query oracle)",
    "DESIGN.md 4 (C20)",
)

manifest = {
    "version": 1,
    "setup_cmd": "cd /verif && PYTHONHASHSEED=0 MPLBACKEND=agg timeout 600 /venv/bin/python -m atomsim.selfcheck",
    "hooks": {
        "guard": "ATOMICA_VERIF",
        "enable": "no source hooks: every seam is a module/class attribute replaced from /verif at run time (atomsim.seams); atomica is imported from /repo's working tree (editable install)",
        "baseline_off_cmd": "cd /repo && /venv/bin/python -m pytest -ra -q -p no:cacheprovider --timeout=900 --continue-on-collection-errors",
        "source_commits": [],
        "add_only": True,
    },
    "engines": [
        {"name": "atomsim", "path": "/verif/atomsim", "serves_properties": sorted(CHECKS), "kind_free_text": "in-house deterministic simulator: choice tape (seed -> replay -> minimise), simulated fork pool, virtual clock, baton-passing interleaver, counted fault points, digests"}
    ],
    "checks": [CHECKS[k] for k in sorted(CHECKS)],
    "not_applicable": [{"property_id": k, "reason": v} for k, v in sorted(NA.items())],
    "notes": "Technique: deterministic simulation with fault injection only. Checks import atomica from /repo's working tree on every invocation; nothing is cached between invocations. Exit 2 = harness error (never a verdict).",
}
json.dump(manifest, open("MANIFEST.json", "w"), indent=1)
print("wrote MANIFEST.json with", len(CHECKS), "checks")
